#!/bin/sh
# offline setup: third-party monitor libraries beside the repo interpreter
set -e
cd "$(dirname "$0")"
if [ ! -d .deps/icontract ]; then
  PIP_NO_INDEX=1 /venv/bin/pip install -q --no-index --find-links /opt/veriftools/wheels --target .deps icontract jsonschema >/dev/null 2>&1 || \
  PIP_NO_INDEX=1 /venv/bin/pip install --no-index --find-links /opt/veriftools/wheels --target .deps icontract jsonschema
fi
PYTHONPATH=/repo:.deps:. /venv/bin/python -c "import icontract, jsonschema, data_algebra; print('setup ok', data_algebra.__file__)"
