#!/venv/bin/python
"""Run the repository's baseline suite (hooks/guard off) and compare with /root/.vp/BASELINE.json stable_pass."""
import json, os, subprocess, sys, xml.etree.ElementTree as ET
out = "/verif/.work/baseline.junit.xml"
os.makedirs("/verif/.work", exist_ok=True)
env = {k: v for k, v in os.environ.items() if k not in ("DATA_ALGEBRA_VERIF", "PYTHONPATH")}
extra = sys.argv[1:]
subprocess.run(["/venv/bin/python", "-m", "pytest", "-ra", "-q", "-p", "no:cacheprovider", "--timeout=900",
                "--continue-on-collection-errors", "--junitxml=" + out] + extra, cwd="/repo", env=env,
               stdout=subprocess.DEVNULL, stderr=subprocess.DEVNULL)
base = set(json.load(open("/root/.vp/BASELINE.json"))["stable_pass"])
passed = set()
for tc in ET.parse(out).getroot().iter("testcase"):
    if not any(c.tag in ("failure", "error", "skipped") for c in tc):
        passed.add(tc.get("classname") + "::" + tc.get("name"))
missing = sorted(base - passed)
print("baseline stable_pass:", len(base), "passed now:", len(passed & base), "missing:", missing[:20])
subprocess.run(["git", "-C", "/repo", "checkout", "--", "tests/data_algebra_test_cache.pkl.gz"], stderr=subprocess.DEVNULL)
sys.exit(1 if missing else 0)
