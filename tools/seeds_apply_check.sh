#!/bin/sh
# every seeded change must still apply to /repo's current tree (re-base by hand when a repair moved the code)
for d in /verif/seeded/*/; do git -C /repo apply --check "$d/patch.diff" 2>/dev/null || echo "DOES NOT APPLY: $d"; done
