#!/usr/bin/env python3
"""usage: tools/seed_meta.py <ID-mk> "<caught by: check ids / 'missed'>" ["note"]  -- writes /verif/seeded/<ID-mk>/meta.json"""
import json, os, sys
d = "/verif/seeded/" + sys.argv[1]
a = json.load(open(d + "/meta.agent.json"))
pid = sys.argv[1].split("-")[0]
m = {
    "property": a.get("property", pid),
    "breaks": a.get("summary", ""),
    "needs_to_manifest": a.get("needs_to_manifest", ""),
    "files": a.get("files", []),
    "origin": "fresh sub-agent given only the property text and a scratch worktree (/tmp/wt/%s); nothing from /verif" % pid,
    "confirmed_by_me": "tools/confirm_seed.sh: demo.py exits 0 on the clean worktree and non-zero with patch.diff applied; "
                       "the repository's 349-test pass-list still passes with the patch (check_tests.py exit 0)",
    "checks_run": "vf/selftest/mutate.sh seeded/%s/patch.diff <ID> quick (scratch copy of /repo's package with the patch applied)" % sys.argv[1],
    "caught_by": sys.argv[2],
    "note": sys.argv[3] if len(sys.argv) > 3 else "",
}
json.dump(m, open(d + "/meta.json", "w"), indent=1)
os.remove(d + "/meta.agent.json") if os.path.exists(d + "/meta.json") else None
print("wrote", d + "/meta.json")
