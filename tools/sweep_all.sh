#!/bin/sh
# usage: tools/sweep_all.sh "<seeds>" [ids...]  -- quick tier of every registered check for the given seeds
SEEDS="$1"; shift
IDS="${*:-$(jq -r '.checks[].property_id' /verif/MANIFEST.json)}"
for id in $IDS; do for s in $SEEDS; do
  VERIF_SEED=$s /verif/check $id quick > /verif/.work/sweep.$id.$s.out 2>&1; rc=$?
  echo "$id seed=$s rc=$rc $(grep -E '^\[' /verif/.work/sweep.$id.$s.out | tail -1 | cut -c1-150)"
  if [ $rc -ne 0 ]; then grep -E "^VIOLATION|^INCONCLUSIVE" -A1 /verif/.work/sweep.$id.$s.out | cut -c1-300 | head -6; fi
done; done
