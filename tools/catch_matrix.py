#!/usr/bin/env python3
"""prints the markdown table of seeded changes (from /verif/seeded/*/meta.json)"""
import glob, json, os
print("| seeded change | breaks | needs to manifest | caught by | note |")
print("|---|---|---|---|---|")
for d in sorted(glob.glob("/verif/seeded/*/")):
    m = json.load(open(d + "meta.json"))
    def c(s, n):
        s = " ".join(str(s).split()).replace("|", "/")
        return s if len(s) <= n else s[: n - 1] + "…"
    print(f"| {os.path.basename(d[:-1])} | {c(m.get('breaks',''), 170)} | {c(m.get('needs_to_manifest',''), 150)} | {c(m.get('caught_by',''), 60)} | {c(m.get('note',''), 200)} |")
