#!/venv/bin/python
"""summarise replay files of a property: tools/vsum.py C01 [maxchars]"""
import glob, json, re, sys, os
pid = sys.argv[1]; mx = int(sys.argv[2]) if len(sys.argv) > 2 else 700
fs = sorted(glob.glob(f"/verif/evidence/replays/{pid}-*.json"), key=os.path.getmtime)
for f in fs[-int(os.environ.get("N", "12")):]:
    v = json.load(open(f))
    d = re.sub(r"\s+", " ", v.get("detail", ""))
    d = re.sub(r"-- data_algebra SQL.*?identifier quote: \" ", "", d)
    print("##", os.path.basename(f), v.get("kind"), v.get("finding_key"))
    print("  ", d[:mx])
