#!/bin/sh
# usage: tools/confirm_seed.sh <ID> <mk> [check-ids...]
# confirms a sub-agent's change in its scratch worktree /tmp/wt/<ID>: demo passes on the clean tree, fails with the patch,
# the repository's pass-list still passes with the patch; then copies it to /verif/seeded/<ID>-<mk>/ and runs the listed
# checks (default: <ID>) against a scratch copy of the patched package.
ID="$1"; MK="$2"; shift 2; CHECKS="${*:-$ID}"
WT=/tmp/wt/$ID; SRC=/tmp/wt-out/$ID/$MK
[ -f "$SRC/patch.diff" ] || { echo "no patch in $SRC"; exit 3; }
git -C "$WT" checkout -q -- . ; git -C "$WT" status --short | grep -v '^??' && { echo "worktree dirty"; exit 3; }
( cd "$WT" && PYTHONPATH="$WT" /venv/bin/python "$SRC/demo.py" >/dev/null 2>&1 ); D0=$?
git -C "$WT" apply "$SRC/patch.diff" || { echo "patch does not apply"; exit 3; }
( cd "$WT" && PYTHONPATH="$WT" /venv/bin/python "$SRC/demo.py" >/dev/null 2>&1 ); D1=$?
/venv/bin/python /tmp/wt-out/check_tests.py "$WT" > /tmp/wt-out/$ID/$MK.tests.txt 2>&1; T=$?
git -C "$WT" checkout -q -- .
echo "demo clean rc=$D0 (want 0)  demo patched rc=$D1 (want !=0)  tests with patch rc=$T (want 0): $(cat /tmp/wt-out/$ID/$MK.tests.txt | cut -c1-120)"
if [ $D0 -ne 0 ] || [ $D1 -eq 0 ] || [ $T -ne 0 ]; then echo "NOT CONFIRMED"; exit 1; fi
DEST=/verif/seeded/$ID-$MK; mkdir -p "$DEST"; cp "$SRC/patch.diff" "$SRC/demo.py" "$DEST/"; cp "$SRC/meta.json" "$DEST/meta.agent.json"
for c in $CHECKS; do
  echo "--- check $c against the change:"
  /verif/vf/selftest/mutate.sh "$DEST/patch.diff" $c quick > /tmp/wt-out/$ID/$MK.$c.out 2>&1; RC=$?
  cut -c1-220 /tmp/wt-out/$ID/$MK.$c.out | head -6
  echo "check $c rc=$RC (1 = caught)"
done
