#!/bin/sh
# usage: tools/sweep.sh "<ids>" "<seeds>" [tier]   -- prints one line per (id, seed)
TIER="${3:-quick}"
for id in $1; do for s in $2; do
  VERIF_SEED=$s /verif/check $id $TIER > /verif/.work/sweep.$id.$s.out 2>&1; rc=$?
  echo "$id seed=$s rc=$rc $(tail -1 /verif/.work/sweep.$id.$s.out | cut -c1-160)"
  if [ $rc -ne 0 ]; then grep -E "^VIOLATION|^INCONCLUSIVE" -A1 /verif/.work/sweep.$id.$s.out | cut -c1-400 | head -6; fi
done; done
