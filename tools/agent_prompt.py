#!/usr/bin/env python3
"""prints the prompt given to a fresh sub-agent asked for property-breaking changes (it sees only the property text)"""
import json, sys
pid = sys.argv[1]
A, B = (sys.argv[2], sys.argv[3]) if len(sys.argv) > 3 else ("m1", "m2")
AVOID = sys.argv[4] if len(sys.argv) > 4 else ""
p = [json.loads(l) for l in open("/verif/properties.jsonl") if json.loads(l)["id"] == pid][0]
print(f"""You are helping to evaluate a verification harness by producing realistic faulty versions of a Python library.

You work ONLY inside the scratch git worktree /tmp/wt/{pid} (a checkout of the library WinVector/data_algebra: a relational-algebra DSL that builds operator DAGs, compiles them to SQL for several dialects and executes the same pipelines on Pandas and Polars). Do not read or modify /repo or /verif. Write your deliverables under /tmp/wt-out/{pid}/.

How to run things:
- interpreter: /venv/bin/python (pandas, polars, sqlite3 available). Run code against the worktree with: cd /tmp/wt/{pid} && PYTHONPATH=/tmp/wt/{pid} /venv/bin/python your_script.py
- the existing test suite check: /venv/bin/python /tmp/wt-out/check_tests.py /tmp/wt/{pid}   (about 1-2 minutes; exit 0 means every test of the reference pass-list still passes; some other tests fail already on the unmodified tree, that is expected and irrelevant)
- there is no network.

The property (a behavioural guarantee users of the library rely on):

  {pid} - {p['title']}
  {p['statement']}
  Quantified over: {p['quantifier']['text']}

Your task: produce TWO independent changes ({A} and {B}, different mechanisms, different code sites if possible) to the library source under data_algebra/ such that, with the change applied:
  (a) the package still imports and the existing test suite check above still exits 0;
  (b) the property above is broken: there is a concrete pipeline / input / history / configuration for which the library now misbehaves in the sense of the property;
  (c) the change is realistic - the sort of slip a maintainer could make while refactoring, optimising, or fixing something else (an off-by-one, a dropped argument, a wrong default, a cache key that forgets a field, a condition inverted in a rarely taken branch, a copy that became a view ...), not an obviously malicious edit;
  (d) it needs something SPECIFIC to manifest - an unusual input (nulls, duplicates, empty table, particular names), a particular multi-step sequence of operations, a particular option combination, or two cooperating code sites that each look fine alone - and is NOT exposed immediately by ordinary simple use. Prefer changes whose trigger is narrow but plausible in real use.

For each change k in ({A}, {B}) deliver in /tmp/wt-out/{pid}/<k>/ (that is /tmp/wt-out/{pid}/{A}/ and /tmp/wt-out/{pid}/{B}/):
  - patch.diff : output of `git diff` in the worktree (must apply with `git apply` at the repository root of a clean checkout);
  - demo.py : a small standalone program that imports data_algebra (from PYTHONPATH) and exits 0 on the unmodified tree but exits non-zero (assert failure) with the change applied; it should state in a comment what it demonstrates;
  - meta.json : {{"property": "{pid}", "summary": "...", "needs_to_manifest": "...", "files": [...], "tests_run": "command and outcome"}}.
Verify yourself, before finishing, for each change: demo.py exits 0 on the clean worktree, exits non-zero with the patch, and check_tests.py exits 0 with the patch applied. If a candidate change makes the test check fail, discard it and find another. Work on one change at a time: apply, verify, save the diff, then `git checkout -- .` to restore the worktree before the next. Leave the worktree clean at the end.

{('Earlier rounds already produced changes at these sites; choose DIFFERENT functions and mechanisms: ' + AVOID + chr(10) + chr(10)) if AVOID else ''}Never use `git stash` (worktrees share the stash). Start by reading the code that implements the behaviour behind the property (grep in data_algebra/), then choose the change. Finish with a short report: for each change, one paragraph on what it does and what is needed to trigger it.""")
