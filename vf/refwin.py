"""Reference semantics of windowed / ordered-window functions: each row's value is computed over that row's partition
(equality of partition key tuples, null a key of its own), the partition sorted by the declared order keys with the
declared reversals.  Values are plain Python (None = null).  UNSPEC marks values the documentation does not fix."""
import math
import statistics

UNSPEC = object()


def sort_partition(rows, idx_order, reverse_flags):
    """rows: list of (original index, row); total order is the caller's responsibility (no nulls in order keys)"""
    out = list(rows)
    for j, rev in reversed(list(zip(idx_order, reverse_flags))):
        out.sort(key=lambda ir: ir[1][j], reverse=rev)
    return out


def ordered_fn(name, vals, arg=None):
    """vals in partition order -> list of results (same order)"""
    n = len(vals)
    if name == "_row_number":
        return list(range(1, n + 1))
    if name in ("cumsum", "cumprod", "cummax", "cummin"):
        out = []
        acc = None
        for v in vals:
            if v is None:
                out.append(UNSPEC)  # backends differ on what a running function shows at a null row (recorded)
                continue
            if acc is None:
                acc = v
            elif name == "cumsum":
                acc = acc + v
            elif name == "cumprod":
                acc = acc * v
            elif name == "cummax":
                acc = max(acc, v)
            else:
                acc = min(acc, v)
            out.append(acc)
        return out
    if name == "shift":
        k = 1 if arg is None else int(arg)
        out = []
        for i in range(n):
            j = i - k
            out.append(vals[j] if 0 <= j < n else None)
        return out
    if name == "first":
        return [vals[0]] * n if vals and vals[0] is not None else [UNSPEC] * n
    if name == "last":
        return [vals[-1]] * n if vals and vals[-1] is not None else [UNSPEC] * n
    if name == "ffill":
        out, cur = [], None
        for v in vals:
            if v is not None:
                cur = v
            out.append(cur)
        return out
    if name == "bfill":
        out, cur = [], None
        for v in reversed(vals):
            if v is not None:
                cur = v
            out.append(cur)
        return list(reversed(out))
    raise KeyError(name)


def group_fn(name, vals):
    """aggregate over a partition -> single value (or UNSPEC)"""
    nn = [v for v in vals if v is not None]
    if name in ("size", "_size"):
        return len(vals)
    if name == "count":
        return len(nn)
    if name == "nunique":
        return len(set(nn))
    if name == "sum":
        return sum(nn) if nn else UNSPEC  # accepted convention point (0 or NULL)
    if name == "mean":
        return (sum(nn) / len(nn)) if nn else None
    if name == "min":
        return min(nn) if nn else None
    if name == "max":
        return max(nn) if nn else None
    if name == "median":
        return statistics.median(nn) if nn else None
    if name == "std":
        return statistics.stdev(nn) if len(nn) >= 2 else UNSPEC
    if name == "var":
        return statistics.variance(nn) if len(nn) >= 2 else UNSPEC
    raise KeyError(name)


def window_reference(cols, rows, fn, value_col, partition, order, reverse, arg=None):
    """returns list (parallel to rows) of expected values of fn over value_col"""
    ci = {c: i for i, c in enumerate(cols)}
    parts = {}
    for i, r in enumerate(rows):
        parts.setdefault(tuple(r[ci[p]] for p in partition), []).append((i, r))
    out = [None] * len(rows)
    for key, members in parts.items():
        if order:
            members = sort_partition(members, [ci[o] for o in order], [o in set(reverse) for o in order])
            vals = [r[ci[value_col]] if value_col is not None else 1 for _, r in members]
            res = ordered_fn(fn, vals, arg)
            for (i, _), v in zip(members, res):
                out[i] = v
        else:
            vals = [r[ci[value_col]] if value_col is not None else 1 for _, r in members]
            v = group_fn(fn, vals)
            for i, _ in members:
                out[i] = v
    return out
