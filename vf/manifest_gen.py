"""Regenerates /verif/MANIFEST.json from the table below (run: /venv/bin/python -m vf.manifest_gen)."""
import json
import os

ROOT = os.path.dirname(os.path.dirname(os.path.abspath(__file__)))

BASE = "cd /repo && /venv/bin/python -m pytest -ra -q -p no:cacheprovider --timeout=900 --continue-on-collection-errors"

# id -> (technique, level text, level note, design_ref)
CHECKS = {
    "C24": (
        "online model-stepped history monitor + icontract class invariant",
        "Every OrderedSet operation of bounded-exhaustive (depth 3 quick / 4 thorough over a 44-operation "
        "alphabet) and random (length <= 60) histories is executed on the real class and on a (list,set) model in "
        "lock-step; the complete observable state is compared after every step. Held means: no divergence on the "
        "histories enumerated (counts in the evidence).",
        "Trusted: the 20-line list/set model; order of binary-operator results is not constrained beyond contents.",
        "4/C24",
    ),
    "C23": (
        "icontract postcondition on the real function vs union-find reference",
        "connected_components is called directly and through Pandas pipelines on every edge list of a bounded space "
        "(<=4 edges on 4 vertices quick; <=5 on 4 and <=4 on 5 thorough) and on random lists up to 200 edges over "
        "int/str/float/tuple vertices; an icontract postcondition on the real module function compares every result "
        "with a union-find reference.",
        "Trusted: the union-find reference; homogeneous comparable vertices.",
        "4/C23",
    ),
    "C22": (
        "boundary monitor on decorated calls vs reference predicate",
        "Random specifications x calls x values (scalars, pandas and polars frames) are executed through the real "
        "SchemaRaises decorator with the switch on and off; raise/return and result identity are compared with a "
        "reference predicate written from the property statement.",
        "Trusted: the reference predicate; null scalar arguments under a declared type are not judged.",
        "4/C22",
    ),
    "C25": (
        "online model-stepped history monitor + key-collision search",
        "store/get/mutate histories on the real ResultCache are stepped against an exact-content dict model (hit iff "
        "the model holds the key, value equal to what was stored, no aliasing of returned/stored frames); "
        "make_cache_key is additionally called on (base, one-aspect-perturbed) data-map pairs and must differ.",
        "Trusted: the exact-content canonicalisation; pairs equal in the property's sense (1 vs 1.0, None vs NaN, "
        "index-only) are not asserted.",
        "4/C25",
    ),
    "C20": (
        "online model-stepped history monitor (dict model) on both data spaces",
        "insert/execute/remove/describe/retrieve/keys histories (bounded-exhaustive over a 14-op core alphabet to depth "
        "3/4, random to length 25, user keys colliding with automatic names) run on DataModelSpace and DBSpace(SQLite) "
        "and on a dict model in lock-step; keys() and every retrieve() are compared after every operation.",
        "Trusted: Pandas evaluation of deliberately simple null-free pipelines as the expected value of execute().",
        "4/C20",
    ),
    "C13": (
        "differential monitor: CPython eval vs interpreter of the parsed tree; print/parse round trip",
        "Every expression text of a bounded grammar slice (all flat operator sequences with <=3/4 binary operators, "
        "all unary-minus subsets, all single parenthesised spans, method suffixes, boolean connective layer) plus "
        "random larger mixes is parsed by the real parser; the tree's value (own 40-line interpreter, Python operator "
        "per node) is compared with CPython's eval of the same text on 5 operand tuples, and print->parse must give an "
        "equal tree with the same value.",
        "Trusted: CPython as the meaning of the text; the tree interpreter; operand tuples avoid domains where Python "
        "and the DSL legitimately differ.",
        "4/C13",
    ),
    "C01": (
        "differential runtime monitor: Pandas executor vs to_sql() executed on real SQLite 3.40, trigger monitors",
        "Random well-typed pipelines over generated tables (nulls, duplicates, ties, empty tables) are evaluated by the "
        "Pandas executor and, as SQLite-dialect SQL, on an in-process SQLite through the repository's own DBHandle; "
        "tables are compared as column set + row multiset (+ key order after a final order_rows). The data-aware "
        "generator keeps executions outside the triggers of recorded divergences and runtime trigger monitors confirm "
        "it; any mismatch outside them is a violation; failing cases are shrunk and replayable. Listed witnesses of "
        "recorded and repaired defects are replayed on every run.",
        "Trusted: SQLite 3.40 as the SQL engine; frames_match tolerance 1e-7; cases producing non-finite "
        "intermediates are discarded; known-finding hazard domains (known_findings.json) are not judged.",
        "4/C01",
    ),
    "C08": (
        "runtime contract on ViewRepresentation.eval/transform/ex + direct check of SQL result frames",
        "A postcondition installed on the real eval/transform/ex compares every returned frame's column set with the "
        "pipeline's declared column_names (Pandas, Polars eager/lazy); frames read back from SQLite and from the "
        "PostgreSQL-dialect text on the SQLite surrogate are checked the same way; column order is checked after a "
        "final select_columns. Driven by random pipelines incl. empty inputs and overwriting/dropping steps.",
        "Trusted: nothing beyond the frames' own column lists; the PostgreSQL dialect runs on a SQLite surrogate.",
        "4/C08",
    ),
    "C19": (
        "runtime snapshot contract on ViewRepresentation.eval/transform/ex; repeat evaluation",
        "Every input frame is snapshotted before eval/transform/ex/>> and compared after (values, dtypes, columns, "
        "index, index names, attrs; Polars: equals + schema) by a contract on the real methods; inputs are presented "
        "with exotic indexes/dtypes and as views; each pipeline is evaluated twice and the two tables compared.",
        "Trusted: pandas.DataFrame.equals / polars equals for value comparison. Row order of a result is only compared "
        "after a final order_rows.",
        "4/C19",
    ),
    "C09": (
        "invariant at a hook on every executed project / windowed-extend step; per-node SQL runs",
        "Wrappers on the real Pandas and Polars _project_step/_extend_step re-materialise the node's input and assert, "
        "for every such node any workload executes: rows out == distinct key combinations of the input (null is a "
        "key), exactly one row without group_by (also on empty input), windowed extend keeps every row, per-group "
        "sum/min/max/count/size/mean equal a reference computed over that group. For SQLite and the PostgreSQL "
        "dialect (surrogate) every project/window node of the recipe is executed as its own root next to its source "
        "and judged by the same invariant; pipelines ending in project + overwrite/drop of all its outputs are "
        "checked for cardinality on both SQL dialects.",
        "Trusted: the 30-line per-group reference; sum over a group without non-null value and count/size of an empty "
        "ungrouped input are not compared (accepted convention).",
        "4/C09",
    ),
    "C04": (
        "metamorphic runtime monitor over option variants, same engine on both sides",
        "For each random pipeline (biased to shared sub-DAGs and unmergeable-at-build extend chains) SQL is generated "
        "under option variants of use_with x use_cte_elim x annotate x initial_commas x extend-merge on/off (all 32 "
        "thorough, 14 quick) with sampled indent, for the SQLite dialect (on SQLite) and the PostgreSQL dialect with "
        "CTE elimination (on the SQLite surrogate); every variant must return the plain variant's table and raise iff "
        "it raises; to_sql must be repeatable and must not change the pipeline. Evidence counts observed CTE re-use "
        "and SQL-level extend merges.",
        "Trusted: same-engine comparison; PostgreSQL text that only the SQLite surrogate cannot run (and engine "
        "resource limits on deeply nested text) is excluded and counted.",
        "4/C04",
    ),
    "C06": (
        "metamorphic runtime monitor: chained builder vs step-by-step materialisation; acceptance probes; merge counter",
        "Step sequences from the shared generator (boosted: consecutive extends over a 3-name target pool, "
        "select/drop/select chains, interior order_rows before every operator kind) are built as one chained pipeline and "
        "evaluated on Pandas; the result must equal applying each step to a fresh description of the materialised "
        "previous result. A probe step (select/extend/order/drop naming a removed column, join with the common-key "
        "check) must be accepted by the chained builder iff it is accepted on the materialised prefix. A wrapper on "
        "try_to_merge_ops counts the merges that really happened.",
        "Trusted: the Pandas executor evaluating single steps on materialised frames.",
        "4/C06",
    ),
    "C26": (
        "runtime acceptance monitor on the real builder methods vs a reference rule evaluator",
        "Valid prefixes from the shared generator (ending in every operator kind; interior order_rows, select/drop "
        "chains and mergeable extends boosted) are offered ~50 probe-step templates: rule-violating ones (unknown column - "
        "never existing or removed earlier - in every argument position of every builder, assignment of a "
        "partition/order column, use of a column produced in the same extend, non-aggregating and too-complex "
        "project/window expressions, join with missing keys, join with non-key common columns and the check requested, "
        "concat of different column sets) and rule-conforming counterparts. The chained builder must raise at the call "
        "iff a reference rule evaluator (Python ast over the step's arguments and the prefix's declared columns) says a "
        "rule is broken. Evidence tabulates rule x prefix-ending-kind coverage.",
        "Trusted: the ~80-line rule evaluator; declared columns = columns of the materialised prefix.",
        "4/C26",
    ),
    "C07": (
        "metamorphic runtime monitor: four composition routes vs sequential application on Pandas; associativity; dom/cod",
        "Pairs (a, b) and triples (a, b, c) of random pipelines - b generated data-aware over a table description of "
        "exactly a's produced columns, with every operator kind (select_rows, map_columns with deletions, interior "
        "order_rows, partition_by=1 windows, joins/concats whose other leg reads the boundary table or an original "
        "table) - are composed through a >> b, DataOpArrow composition, replace_leaves and eval with a map of "
        "pipelines. Every route must return, the composed pipeline's Pandas result must equal b evaluated on a's "
        "materialised result, (a>>b)>>c and a>>(b>>c) must both give the sequential result (structural equality of the two is counted, not required), and dom()/cod() "
        "of the composed pipeline/arrow must be the tables and columns it reads and produces.",
        "Trusted: the Pandas executor for sequential application. a >> b is only exercised when b reads a single table.",
        "4/C07",
    ),
    "C12": (
        "round-trip runtime monitor: print (4 ways) -> eval_da_ops -> == / reprint / same result; pickle round trip",
        "Random pipelines extended by printer-hostile steps (arbitrarily shaped expression trees: nested unary minus, "
        "powers of negated terms and negative constants, right-nested - and /, %?% %/% %+%, comparisons and "
        "if_else/where inside arithmetic, is_in lists and sets, mapv with default; string constants with quotes, "
        "backslashes, newlines, unicode; window options; concat_rows label/id variants; non-identifier column names), "
        "built from expression text or from Term objects, are printed with to_python(), to_python(pretty=True), repr() "
        "and str(); each text is rebuilt with the repository's eval_da_ops and must compare equal to the original in "
        "both directions, print to the same text again and give the original's Pandas result on two inputs; "
        "pickle.loads(pickle.dumps(p)) is judged the same way.",
        "Trusted: eval_da_ops as the rebuild route; Pandas executor for the result comparison. convert_records steps "
        "are not generated yet.",
        "4/C12",
    ),
    "C11": (
        "metamorphic runtime monitor: one-argument mutation pairs; == => same SQL in 5 dialects and same result",
        "For each generated pipeline p, q = p with one argument of one step changed by one of ~35 mutation operators "
        "(literal value incl. 1 -> 1.0 -> True, operator, method, column, target, assignment order/removal, n-ary chain "
        "extended by a term, partition/order/reverse, group_by, selections, order/limit, rename/map pairs and "
        "deletions, join type/keys/key pairing, concat labels, table name/columns/order/qualifiers, is_in lists) or an "
        "independent rebuild. Whenever p == q, the SQLite/PostgreSQL/BigQuery/SparkSQL/MySQL texts must be identical and "
        "the Pandas results equal (raise iff raise). p == p, rebuilt copy == p, (p==q) == (q==p), != is the negation.",
        "Trusted: Pandas executor; SQL text compared verbatim. convert_records steps are not generated yet.",
        "4/C11",
    ),
    "C10": (
        "metamorphic runtime monitor: refill unreported input columns; narrowed rebuild on restricted inputs",
        "For each generated pipeline (joins with same-named and differently named keys, shared sub-pipelines feeding two "
        "branches that need different columns, narrowing steps boosted) every input column that columns_used() does not "
        "report is refilled with fresh values of its type (twice) and with nulls; the Pandas result and the SQLite "
        "result must each stay exactly what they were (a raise is a change). The pipeline is also rebuilt over table "
        "descriptions narrowed to the reported columns (replace_leaves) and must give the same result on inputs "
        "restricted to those columns.",
        "Trusted: Pandas executor / SQLite as their own baselines (each backend is compared with itself). A narrowed "
        "rebuild that the builder rejects (a step names an unreported column) is counted, not judged.",
        "4/C10",
    ),
    "C16": (
        "reference-model runtime monitor: pure-Python join + SQLite's native join as oracles for 4 backends",
        "Single natural_join pipelines (optionally over small sub-pipelines) for every join type x key specification "
        "(one key, two keys, differently named, mixed, empty for cross) over table pairs of 0-6 rows with duplicate "
        "keys, null keys on either/both sides, unmatched rows, empty sides, shared non-key columns with nulls on the "
        "left, key-named non-key columns on the other side. A pure-Python nested-loop reference and a hand-written SQL "
        "join executed natively by SQLite 3.40 must agree first; then Pandas, Polars (eager/lazy; a raise is a refusal), "
        "the SQLite dialect (emulated RIGHT/FULL) and the PostgreSQL dialect on the SQLite surrogate must each return "
        "exactly those rows.",
        "Trusted: the 40-line reference join cross-checked against SQLite's native joins on every case. Recorded "
        "findings are limited to the SQLite dialect's FULL join emulation and attributed narrowly (the same join "
        "without the null-key rows must be right).",
        "4/C16",
    ),
    "C03": (
        "differential runtime monitor: Pandas executor vs Polars executor (eager input, lazy input, eager model)",
        "Random well-typed pipelines (all public operators, joins with same-named and differently named keys, nulls, "
        "duplicates, empty tables) are evaluated by the Pandas executor and by the Polars executor three ways (eager "
        "frames, lazy frames, PolarsModel(use_lazy_eval=False)). A Polars raise is an allowed outcome, counted by "
        "exception class; a returned table that differs from the Pandas table in columns, row multiset or (after a final "
        "order_rows) key order is a violation; failing cases are shrunk and replayable.",
        "Trusted: the Pandas executor as reference; executions with a null operand of a comparison (Pandas two-valued "
        "logic, recorded under C01) are not generated; about a fifth of the cases raise on Polars 1.44 (removed "
        "Expr.cumsum/... API), which the property allows.",
        "4/C03",
    ),
    "C27": (
        "reference-model runtime monitor: per-ordered-partition reference vs Pandas, SQLite, PostgreSQL dialect, Polars",
        "Windowed extends (optionally behind a row filter, optionally preceded by another ordered window over the same "
        "partition with the order columns permuted / reversed differently) for cumsum/cummax/cummin/cumprod, "
        "_row_number, shift(1|2|-1), first/last, ffill/bfill with order_by and sum/mean/min/max/count/size/_size/std/"
        "var/median/nunique with partition only, over 0-2 partition columns (null keys included), 1-3 order columns "
        "with ties in single columns (total jointly) and any reversal subset. Each backend that supports the function "
        "(method catalog; Polars whenever it returns) must give every row the value a 100-line reference computes "
        "over that row's partition in the declared order; agreement with one reference implies pairwise agreement.",
        "Trusted: the reference (vf/refwin.py). Not judged: running functions at rows whose own value is null, "
        "std/var of < 2 values, sum of an all-null partition, first/last of a null, rank and cumcount (meaning not "
        "fixed by the documentation). PostgreSQL dialect runs on the SQLite surrogate.",
        "4/C27",
    ),
    "C17": (
        "algebraic-law runtime monitor on the real RecordMap + reference pivot/unpivot; Pandas vs Polars",
        "Random strict record specifications (1-2 control key columns, 1-3 value columns, 2-4+ block rows, 0-2 record keys) "
        "and conforming data (unique record keys, null values, 0-6 records): unpivot and pivot results must equal a "
        "reference on lists of dicts; inverse() round trips must return the original table in both directions; for a "
        "second layout of the same content names compose() and >> must equal sequential application; the Polars "
        "executor must return what the Pandas executor returns; convert_records in a pipeline must equal "
        "transform(); pivot_/unpivot_specification helpers obey the same laws; the caller's frame (non-default index) "
        "must be unchanged after transform() and frame >> record_map.",
        "Trusted: the 40-line reference pivot/unpivot. Polars raising (schema errors on all-null columns) is a refusal.",
        "4/C17",
    ),
    "C18": (
        "metamorphic runtime monitor: re-presented inputs (row order, index flavours) + direct sortedness / limit-prefix oracle",
        "Random pipelines with total window orders (verified by the generator) are evaluated on the original inputs and "
        "on inputs re-presented as permuted rows and, for Pandas, with a shuffled integer index, duplicate labels, a "
        "string index, a descending index, an offset RangeIndex, a stepped RangeIndex and a named index; Pandas, Polars "
        "and SQLite must each return their own original multiset of rows. When the pipeline ends in order_rows the rows "
        "must be sorted by the declared columns/reversals (exact comparison) and with a limit (incl. 0, beyond the row "
        "count, ties at the cut) be a sub-multiset of the unlimited result of size min(limit, n) with no excluded row "
        "sorting strictly before an included one. convert_records pipelines are driven with permuted block rows.",
        "Trusted: each backend is its own baseline; null placement among order keys is not judged.",
        "4/C18",
    ),
    "C21": (
        "reference-model runtime monitor: helper pipelines on Pandas and SQLite vs from-scratch references",
        "rank_to_average, last_observed_carried_forward, replicate_rows_query and def_multi_column_map are built by the "
        "real functions on random valid inputs (ties, several partition columns, leading/trailing/all-missing runs and a "
        "second nullable column that must stay untouched, counts at 1 / powers of two / max_count for max_count 1..9, "
        "unmapped and null values, coalesce value, renaming) and evaluated on the Pandas executor and as SQL on SQLite; "
        "both results must equal an independent reference computation written from the documentation.",
        "Trusted: the four reference computations (about 15 lines each).",
        "4/C21",
    ),
    "C05": (
        "reference-model runtime monitor: per-method documented meaning vs Pandas, SQLite, PostgreSQL dialect, Polars",
        "Every row of the repository's own method catalog (124 rows) plus 12 compound-argument variants is evaluated - "
        "scalar methods in an extend, g-class in a partitioned extend, p-class in a grouped project, w-class in an ordered "
        "window - over frames of hostile vectors (nulls, 0, negatives, boundary points, 1e-3, 1e6, equal arguments, "
        "empty / single-row / all-null frames). Every backend the catalog marks 'y' (Pandas; SQLite; PostgreSQL dialect "
        "on the SQLite surrogate) and Polars whenever it returns must give every row the value of a per-method reference "
        "written from the documentation (maximum/minimum propagate nulls, fmax/fmin ignore them, if_else is null on a "
        "null condition, where takes the second branch, coalesce, mapv default, null-propagating arithmetic ...).",
        "Trusted: the reference table in vf/checks/c05.py. Not compared (documentation fixes no value): comparisons / "
        "logic / is_in / string operations at a null operand, rounding at exact .5, arguments outside a method's "
        "domain (a refusal there is counted), as_str of floats, std/var of < 2 values, sum of an all-null group, "
        "dayofweek / weekofyear / base_Sunday / rank / cumcount / _ngroup / _uniform / any_value conventions, missing "
        "dates. Date methods are judged on Pandas/Polars only; is_inf/is_bad/is_nan are not run on the surrogate.",
        "4/C05",
    ),
    "C02": (
        "differential runtime monitor on a surrogate engine: Pandas executor vs PostgreSQL-dialect text executed on SQLite 3.40; PostgreSQL lexer",
        "No PostgreSQL server exists in the sandbox, so no execution on PostgreSQL is observed. Observed instead: "
        "PostgreSQLModel().to_sql() text of random pipelines in an engine-neutral fragment (all operators, native "
        "RIGHT/FULL joins, same-named and differently named keys, shared sub-pipelines, window functions, "
        "STDDEV_SAMP/VAR_SAMP/LN through shims), half of them with use_cte_elim=True, is executed on a SQLite 3.40 "
        "surrogate (double-quoted-string fallback off) and compared with the Pandas result as in C01; every text must "
        "also tokenise under a PostgreSQL lexer.",
        "Reduced strength, stated plainly: this decides the translation logic the PostgreSQL dialect shares with no "
        "other executed dialect (native right/full joins, CTE elimination, its formatters), not PostgreSQL's own runtime "
        "behaviour (type resolution, division by zero, NULL ordering, rounding, identifier folding, infinity literals).",
        "4/C02",
    ),
    "C15": (
        "metamorphic runtime monitor: injective renaming of tables and columns, each backend against itself",
        "Pipelines are built from a name map; for each of ~6 renamings per pipeline (one all-plain control, the others "
        "mapping one table or column name to an internal scratch / CTE / alias name, a '<column>_tmp_right_col'-style "
        "derived name, an SQL keyword, a mixed-case name or a name with spaces / punctuation / unicode) the renamed "
        "pipeline on the renamed inputs must return the renamed original result and must not raise where the original "
        "returns, on Pandas, Polars and SQLite.",
        "Trusted: nothing beyond each backend's own original result. Three recorded findings (fixed scratch column names of "
        "the Pandas and Polars executors, generated CTE names of the SQL generator) are attributed only when the single "
        "hostile target of the renaming is one of the listed names for that backend.",
        "4/C15",
    ),
    "C14": (
        "runtime monitor with three oracles: read-back on real engines, dialect lexers, token-skeleton invariance",
        "About 100 hostile strings (quotes, backslashes, line breaks, comment openers, placeholders, unicode, keywords, "
        "300 characters) are placed in 15 positions where user text reaches SQL (extend constants from text and from "
        "Value objects, select_rows, is_in, mapv key/value/default, column and table names, concat_rows labels and id "
        "column, record-map control keys / content names / record keys) for the SQLite, PostgreSQL, MySQL, BigQuery and "
        "Spark dialects. The SQLite text is executed on SQLite 3.40 and the PostgreSQL text on the SQLite surrogate and "
        "the table read back must equal the Pandas result; every text must tokenise under that dialect's lexer with the "
        "hostile value appearing verbatim among the decoded literal / identifier tokens; the token skeleton must equal "
        "the skeleton of the same pipeline with the string replaced by 'abc'.",
        "Trusted: the five lexers in vf/sqllex.py (Spark's calibrated against the real Spark 4.2 here; MySQL and BigQuery "
        "from documentation only). Names containing the dialect's identifier quote are excluded as the property says. "
        "Two recorded findings (backslash escapes, BigQuery's doubled quote) are attributed by dialect + character.",
        "4/C14",
    ),
}

NOT_BUILT = "check not built yet (build in progress, see DESIGN.md section 8)"


def main():
    props = [json.loads(l) for l in open(os.path.join(ROOT, "properties.jsonl"))]
    checks = []
    na = []
    for p in props:
        pid = p["id"]
        if pid in CHECKS:
            tech, text, note, ref = CHECKS[pid]
            checks.append(
                {
                    "property_id": pid,
                    "quick_cmd": f"./check {pid} quick",
                    "thorough_cmd": f"./check {pid} thorough",
                    "evidence_file": f"/verif/evidence/{pid}.json",
                    "replay_cmd_template": f"./check {pid} --replay {{path}}",
                    "level_claimed": {"category": "exploration", "text": text, "design_ref": "DESIGN.md " + ref},
                    "level_note": note,
                    "technique": tech,
                }
            )
        else:
            na.append({"property_id": pid, "reason": NOT_BUILT})
    m = {
        "version": 1,
        "setup_cmd": "./setup.sh",
        "hooks": {
            "guard": "DATA_ALGEBRA_VERIF",
            "enable": "no source hooks in /repo: monitors (icontract invariants/postconditions, step wrappers, "
            "trigger monitors) are installed from /verif/vf/monitors by wrapping the real classes at import time; "
            "./check exports DATA_ALGEBRA_VERIF=1",
            "baseline_off_cmd": BASE,
            "source_commits": [],
            "add_only": True,
        },
        "checks": checks,
        "notes": "Runtime monitoring of data_algebra (see DESIGN.md). exit 0 held / 1 VIOLATION / 2 INCONCLUSIVE. "
        "known_findings.json lists recorded and fixed defects.",
        "not_applicable": na,
    }
    with open(os.path.join(ROOT, "MANIFEST.json"), "w") as f:
        json.dump(m, f, indent=1)
    try:
        import jsonschema

        jsonschema.validate(m, json.load(open("/root/.vp/MANIFEST.schema.json")))
        print("MANIFEST valid;", len(checks), "checks,", len(na), "not applicable")
    except ImportError:
        print("written (jsonschema unavailable)")


if __name__ == "__main__":
    main()
