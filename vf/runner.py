"""Check runner: spawns worker subprocesses, merges what the monitors observed,
classifies violations against known_findings.json, writes evidence, sets the verdict.

exit 0 = held on what was observed; exit 1 = VIOLATION (line printed);
exit 2 = INCONCLUSIVE (line printed, never a VIOLATION line).
"""
import hashlib
import importlib
import json
import os
import shutil
import subprocess
import sys
import time

ROOT = os.path.dirname(os.path.dirname(os.path.abspath(__file__)))
# evidence describes /repo; a run against a scratch copy (selftest/mutate.sh sets VERIF_REPO) must not overwrite it
_SCRATCH_TARGET = os.path.abspath(os.environ.get("VERIF_REPO", "/repo")) != "/repo"
EVID = os.path.join(ROOT, ".work", "evidence-scratch") if _SCRATCH_TARGET else os.path.join(ROOT, "evidence")
REPLAYS = os.path.join(EVID, "replays")
WORK = os.path.join(ROOT, ".work")


def load_known():
    p = os.path.join(ROOT, "known_findings.json")
    if not os.path.exists(p):
        return {"findings": [], "fixed": []}
    with open(p) as f:
        return json.load(f)


def open_keys(known, pid):
    return {
        e["key"]: e
        for e in known.get("findings", [])
        if e.get("property") == pid and e.get("status", "open") == "open"
    }


def merge_counters(dst, src):
    for k, v in src.items():
        if isinstance(v, dict):
            merge_counters(dst.setdefault(k, {}), v)
        elif isinstance(v, bool):
            dst[k] = bool(dst.get(k, False)) or v
        elif isinstance(v, (int, float)):
            dst[k] = dst.get(k, 0) + v
        elif isinstance(v, list):
            cur = dst.setdefault(k, [])
            for x in v:
                if x not in cur and len(cur) < 400:
                    cur.append(x)
        else:
            dst[k] = v
    return dst


def jdefault(o):
    try:
        import numpy

        if isinstance(o, numpy.generic):
            return o.item()
    except Exception:
        pass
    if isinstance(o, (set, frozenset, tuple)):
        return list(o)
    return repr(o)


def write_replay(pid, v):
    os.makedirs(REPLAYS, exist_ok=True)
    blob = json.dumps(v, sort_keys=True, default=jdefault)
    h = hashlib.sha1(blob.encode()).hexdigest()[:12]
    path = os.path.join(REPLAYS, f"{pid}-{h}.json")
    with open(path, "w") as f:
        f.write(json.dumps(v, indent=1, sort_keys=True, default=jdefault))
    return path


def validate_evidence(ev):
    try:
        import jsonschema

        with open("/root/.vp/EVIDENCE.schema.json") as f:
            schema = json.load(f)
        jsonschema.validate(ev, schema)
    except FileNotFoundError:
        pass
    except ImportError:
        pass


def run_replay(pid, mod, path):
    with open(path) as f:
        v = json.load(f)
    if not hasattr(mod, "replay"):
        print(f"INCONCLUSIVE property={pid} reason=no-replay-support")
        return 2
    msg = mod.replay(v)
    if msg:
        print(f"VIOLATION property={pid} replay={path}")
        print("  " + str(msg)[:2000])
        return 1
    print(f"replay of {path}: property held on this case")
    return 0


def main(argv):
    if len(argv) < 2:
        print("usage: check <ID> quick|thorough | check <ID> --replay <file>")
        return 2
    pid = argv[0].upper()
    mod = importlib.import_module("vf.checks." + pid.lower())
    if argv[1] == "--replay":
        return run_replay(pid, mod, argv[2])
    tier = argv[1]
    assert tier in ("quick", "thorough")
    seed = int(os.environ.get("VERIF_SEED", "0"))
    t0 = time.time()
    plan = mod.plan(tier)
    nb = int(plan["batches"])
    maxpar = int(plan.get("parallel", min(16, os.cpu_count() or 4)))
    timeout = float(plan.get("batch_timeout_s", 900))
    rundir = os.path.join(WORK, f"{pid}-{tier}-{os.getpid()}")
    shutil.rmtree(rundir, ignore_errors=True)
    os.makedirs(rundir, exist_ok=True)
    env = dict(os.environ)
    pending = list(range(nb))
    running = {}
    outs = {}
    dead = []
    hashseeds = plan.get("hashseeds", [os.environ.get("PYTHONHASHSEED", "0")])
    while pending or running:
        while pending and len(running) < maxpar:
            b = pending.pop(0)
            out = os.path.join(rundir, f"b{b}.json")
            e = dict(env)
            e["PYTHONHASHSEED"] = str(hashseeds[b % len(hashseeds)])
            log = open(os.path.join(rundir, f"b{b}.log"), "w")
            p = subprocess.Popen(
                [sys.executable, "-m", "vf.worker", pid, tier, str(seed), str(b), out],
                env=e,
                stdout=log,
                stderr=subprocess.STDOUT,
                cwd=ROOT,
            )
            running[b] = (p, time.time(), out, log)
        time.sleep(0.05)
        for b in list(running):
            p, ts, out, log = running[b]
            rc = p.poll()
            if rc is None:
                if time.time() - ts > timeout:
                    p.kill()
                    p.wait()
                    log.close()
                    dead.append((b, "watchdog"))
                    del running[b]
                continue
            log.close()
            del running[b]
            if rc != 0 or not os.path.exists(out):
                tail = ""
                try:
                    with open(os.path.join(rundir, f"b{b}.log")) as f:
                        tail = f.read()[-1500:]
                except Exception:
                    pass
                dead.append((b, f"rc={rc} {tail}"))
            else:
                with open(out) as f:
                    outs[b] = json.load(f)
    # ---- merge
    counters = {}
    sigs = set()
    samples = []
    violations = []
    witness_fail = {}
    for b in sorted(outs):
        o = outs[b]
        merge_counters(counters, o.get("counters", {}))
        sigs.update(o.get("sigs", []))
        for s in o.get("samples", []):
            if len(samples) < int(plan.get("max_samples", 4)):
                samples.append(s)
        violations.extend(o.get("violations", []))
        for k, msg in o.get("witness_fail", {}).items():
            witness_fail.setdefault(k, msg)
    evaluations = int(counters.get("evaluations", 0))
    known = load_known()
    okeys = open_keys(known, pid)
    exit_code = 0
    lines = []
    # listed witnesses that still fail
    for k, msg in sorted(witness_fail.items()):
        if k in okeys:
            lines.append(f"KNOWN-FINDING: property={pid} {k}: {okeys[k].get('what', msg)}")
        else:
            path = write_replay(pid, {"witness": k, "detail": msg})
            lines.append(f"VIOLATION property={pid} replay={path}")
            lines.append(f"  witness {k} fails and is not an open known finding: {msg}"[:1500])
            exit_code = 1
    known_hits = {}
    nviol = 0
    seen_v = set()
    for v in violations:
        k = v.get("finding_key")
        if k is not None and k in okeys:
            known_hits[k] = known_hits.get(k, 0) + 1
            continue
        nviol += 1
        dk = (v.get("kind"), v.get("finding_key"), v.get("detail", "")[:60])
        exit_code = 1
        if dk in seen_v or len(seen_v) >= int(os.environ.get("VERIF_MAX_REPORT", "8")):
            continue
        seen_v.add(dk)
        path = write_replay(pid, v)
        lines.append(f"VIOLATION property={pid} replay={path}")
        lines.append(("  %s: %s" % (v.get("kind"), v.get("detail", "")))[:1200])
    for k, n in sorted(known_hits.items()):
        if k not in witness_fail:
            lines.append(f"KNOWN-FINDING: property={pid} {k}: {okeys[k].get('what','')} ({n} generated cases)")
    # ---- verdict: inconclusive?
    reasons = []
    if dead:
        reasons.append("workers-dead:" + ";".join(f"b{b}:{why[-700:]}" for b, why in dead[:3]))
    if hasattr(mod, "inconclusive"):
        try:
            r = mod.inconclusive(counters, sigs, tier)
            if r:
                reasons.append(r)
        except Exception as ex:  # pragma: no cover
            reasons.append("inconclusive-hook-raised:" + repr(ex))
    if evaluations < 1 or len(sigs) < 2:
        reasons.append("too-few-observations")
    wall = time.time() - t0
    level = getattr(mod, "LEVEL", "exploration")
    cov = {
        "evaluations": evaluations,
        "distinct_nontrivial": len(sigs),
        "rule": getattr(mod, "RULE", ""),
        "samples": samples if samples else ["(no sample recorded)"],
        "observed": counters,
        "known_finding_hits": known_hits,
        "listed_witnesses_still_failing": sorted(witness_fail),
        "dead_workers": len(dead),
        "batches": nb,
    }
    if getattr(mod, "EXHAUSTIVE", {}).get(tier):
        cov["exhaustive"] = True
    for k in ("traces_validated_against_impl",):
        if k in counters:
            cov[k] = int(counters[k])
    ev = {
        "property_id": pid,
        "tier": tier,
        "seed": seed,
        "level": level,
        "coverage": cov,
        "assumptions": list(getattr(mod, "ASSUMPTIONS", [])),
        "wall_s": round(wall, 2),
        "violations": nviol,
    }
    ev = json.loads(json.dumps(ev, default=jdefault))
    os.makedirs(EVID, exist_ok=True)
    try:
        validate_evidence(ev)
    except Exception as ex:
        if exit_code == 0 and not reasons:
            reasons.append("evidence-invalid:" + str(ex)[:200])
    with open(os.path.join(EVID, pid + ".json"), "w") as f:
        json.dump(ev, f, indent=1, sort_keys=True)
    for ln in lines:
        print(ln)
    if exit_code == 0 and reasons:
        print(f"INCONCLUSIVE property={pid} reason=" + " | ".join(reasons))
        exit_code = 2
    summ = getattr(mod, "summary", None)
    print(
        f"[{pid} {tier} seed={seed}] evaluations={evaluations} distinct_nontrivial={len(sigs)} "
        f"violations={nviol} known_hits={sum(known_hits.values())} wall={wall:.1f}s exit={exit_code}"
    )
    if summ:
        try:
            print(summ(counters))
        except Exception:
            pass
    shutil.rmtree(rundir, ignore_errors=True)
    return exit_code


if __name__ == "__main__":
    sys.exit(main(sys.argv[1:]))
