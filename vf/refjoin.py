"""Reference semantics of natural_join: the standard SQL join of that type on key equality (null never equal),
same-named keys and shared non-key columns COALESCE(left, right), differently named keys both kept.
Two independent renderings: a pure-Python nested-loop join, and a hand-written SQL statement for SQLite 3.40
(native LEFT / RIGHT / FULL / CROSS JOIN)."""


def _eq(a, b):
    if a is None or b is None:
        return False
    if isinstance(a, bool) or isinstance(b, bool):
        return bool(a) == bool(b) if isinstance(a, bool) and isinstance(b, bool) else a == b
    return a == b


def ref_join(lcols, lrows, rcols, rrows, on_pairs, jointype):
    """rows are lists; returns (columns, rows)"""
    jt = jointype.lower()
    li = {c: i for i, c in enumerate(lcols)}
    ri = {c: i for i, c in enumerate(rcols)}
    out_cols = list(lcols) + [c for c in rcols if c not in li]

    def combine(l, r):
        row = []
        for c in out_cols:
            lv = l[li[c]] if (l is not None and c in li) else None
            rv = r[ri[c]] if (r is not None and c in ri) else None
            if c in li and c in ri:
                row.append(lv if lv is not None else rv)
            elif c in li:
                row.append(lv)
            else:
                row.append(rv)
        return row

    out = []
    if jt == "cross":
        for l in lrows:
            for r in rrows:
                out.append(combine(l, r))
        return out_cols, out
    matched_r = set()
    for l in lrows:
        hit = False
        for j, r in enumerate(rrows):
            if all(_eq(l[li[a]], r[ri[b]]) for a, b in on_pairs):
                out.append(combine(l, r))
                matched_r.add(j)
                hit = True
        if not hit and jt in ("left", "full"):
            out.append(combine(l, None))
    if jt in ("right", "full"):
        for j, r in enumerate(rrows):
            if j not in matched_r:
                out.append(combine(None, r))
    return out_cols, out


def q(n):
    return '"' + n.replace('"', '""') + '"'


def native_sql(lname, lcols, rname, rcols, on_pairs, jointype):
    jt = jointype.lower()
    li = set(lcols)
    ri = set(rcols)
    out_cols = list(lcols) + [c for c in rcols if c not in li]
    terms = []
    for c in out_cols:
        if c in li and c in ri:
            terms.append(f"COALESCE(l.{q(c)}, r.{q(c)}) AS {q(c)}")
        elif c in li:
            terms.append(f"l.{q(c)} AS {q(c)}")
        else:
            terms.append(f"r.{q(c)} AS {q(c)}")
    kw = {"inner": "INNER JOIN", "left": "LEFT JOIN", "right": "RIGHT JOIN", "full": "FULL JOIN", "cross": "CROSS JOIN"}[jt]
    sql = f"SELECT {', '.join(terms)} FROM {q(lname)} l {kw} {q(rname)} r"
    if jt != "cross":
        sql += " ON " + " AND ".join(f"l.{q(a)} = r.{q(b)}" for a, b in on_pairs)
    return sql
