"""One definition of table comparison, used by every differential / metamorphic oracle.

A table is (sorted column list, multiset of rows).  null/NaN/NaT/pd.NA -> None; bool -> 0/1
(SQLite has no boolean type); numbers compared with tolerance; +-inf must match in sign.
Row order is only compared when ordered_by is given (sequence of key tuples must agree up to ties).
"""
import datetime
import math

REL = 1e-7
ABS = 1e-9


def is_polars(d):
    return type(d).__module__.startswith("polars")


def norm_cell(v):
    if v is None:
        return None
    tn = type(v).__name__
    if isinstance(v, bool) or tn in ("bool_", "bool"):
        return int(bool(v))
    if isinstance(v, int):
        return v
    if isinstance(v, float):
        if math.isnan(v):
            return None
        return v
    if isinstance(v, str):
        return v
    if tn in ("NAType", "NaTType"):
        return None
    if hasattr(v, "item") and tn.startswith(("int", "uint", "float")):
        return norm_cell(v.item())
    if tn == "Decimal":
        return float(v)
    if tn == "Timestamp":
        return "ts:" + v.isoformat()
    if isinstance(v, datetime.datetime):
        return "ts:" + v.isoformat()
    if isinstance(v, datetime.date):
        return "d:" + v.isoformat()
    if tn in ("Timedelta", "timedelta"):
        return "td:" + str(v)
    if isinstance(v, bytes):
        return "bytes:" + repr(v)
    if hasattr(v, "item"):
        try:
            return norm_cell(v.item())
        except Exception:
            pass
    return "obj:" + repr(v)


def to_rows(d, columns=None):
    """list of dict-free rows (tuples) over `columns` (default sorted columns)"""
    cols = list(d.columns)
    if columns is None:
        columns = sorted(cols)
    if is_polars(d):
        if hasattr(d, "collect"):
            d = d.collect()
        data = {c: d[c].to_list() for c in columns}
        n = d.height
    else:
        data = {}
        for c in columns:
            s = d[c]
            if hasattr(s, "columns"):  # duplicated column name
                raise ValueError(f"duplicate column name {c!r}")
            data[c] = s.tolist()
        n = d.shape[0]
    return [tuple(norm_cell(data[c][i]) for c in columns) for i in range(n)]


def cell_eq(a, b):
    if a is None or b is None:
        return a is None and b is None
    an = isinstance(a, (int, float))
    bn = isinstance(b, (int, float))
    if an and bn:
        if isinstance(a, float) and math.isinf(a) or isinstance(b, float) and math.isinf(b):
            return float(a) == float(b)
        return abs(a - b) <= ABS + REL * max(abs(a), abs(b))
    if an != bn:
        return False
    return a == b


def row_eq(r, s):
    return len(r) == len(s) and all(cell_eq(a, b) for a, b in zip(r, s))


def _sort_key(r):
    k = []
    for v in r:
        if v is None:
            k.append((0, 0, ""))
        elif isinstance(v, (int, float)):
            if isinstance(v, float) and math.isinf(v):
                k.append((1, 1e308 if v > 0 else -1e308, ""))
            else:
                # coarse rounding so that float noise does not reorder
                k.append((1, float("%.6g" % v), ""))
        else:
            k.append((2, 0, str(v)))
    return tuple(k)


def multiset_diff(ra, rb):
    """None if equal as multisets (with tolerance), else (only_in_a, only_in_b) samples"""
    if len(ra) != len(rb):
        pass
    sa = sorted(ra, key=_sort_key)
    sb = sorted(rb, key=_sort_key)
    if len(sa) == len(sb) and all(row_eq(x, y) for x, y in zip(sa, sb)):
        return None
    # greedy bipartite fallback
    rest = list(sb)
    only_a = []
    for x in sa:
        for j, y in enumerate(rest):
            if row_eq(x, y):
                del rest[j]
                break
        else:
            only_a.append(x)
    if not only_a and not rest:
        return None
    return only_a[:5], rest[:5]


def frames_match(a, b, ordered_by=None, reverse=(), check_column_order=False):
    """returns None when equal, else a short description of the first difference.
    ordered_by: list of columns; the sequences of key tuples must be identical (ties may permute rows)."""
    ca, cb = list(a.columns), list(b.columns)
    if len(set(ca)) != len(ca) or len(set(cb)) != len(cb):
        return f"duplicate column names: {ca} / {cb}"
    if set(ca) != set(cb):
        return f"column sets differ: {sorted(ca, key=str)} vs {sorted(cb, key=str)}"
    if check_column_order and ca != cb:
        return f"column order differs: {ca} vs {cb}"
    cols = sorted(ca, key=str)
    ra = to_rows(a, cols)
    rb = to_rows(b, cols)
    if len(ra) != len(rb):
        return f"row counts differ: {len(ra)} vs {len(rb)}; a={ra[:6]} b={rb[:6]}"
    d = multiset_diff(ra, rb)
    if d is not None:
        return f"row multisets differ (columns {cols}): only in first {d[0]}; only in second {d[1]}"
    if ordered_by:
        idx = [cols.index(c) for c in ordered_by]
        ka = [tuple(r[i] for i in idx) for r in ra]
        kb = [tuple(r[i] for i in idx) for r in rb]
        for i, (x, y) in enumerate(zip(ka, kb)):
            if not row_eq(x, y):
                if _near_tied_float_keys(ka, kb):
                    # two order-key values that are equal within the float tolerance but not identical (4.0 and
                    # 3.9999999999999996 from two math libraries): which row comes first is decided by the last bit,
                    # the order of the two results is not comparable
                    return None
                return f"row order differs at position {i} on keys {ordered_by}: {x} vs {y}"
    return None


def _near_tied_float_keys(ka, kb):
    """True if some float component of the order keys takes two different values (within or across the two results)
    that are equal under the comparison tolerance"""
    if not ka:
        return False
    for j in range(len(ka[0])):
        vals = sorted({float(k[j]) for k in list(ka) + list(kb) if isinstance(k[j], float) and not math.isnan(k[j]) and not math.isinf(k[j])})
        for u, v in zip(vals, vals[1:]):
            if u != v and abs(u - v) <= max(ABS, REL * max(abs(u), abs(v))):
                return True
    return False


def frame_to_json(d, limit=50):
    cols = list(d.columns)
    rows = to_rows(d, cols)
    return {"columns": [str(c) for c in cols], "rows": [list(r) for r in rows[:limit]], "nrows": len(rows)}
