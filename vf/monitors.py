"""Monitors installed from the harness on the real classes (no change to /repo needed).

* contract layer on ViewRepresentation.eval / transform / ex:
    C08  result columns == declared column_names
    C19  every input frame unchanged (values, dtypes, columns, index) after the call
  Failures are *recorded* (OBS.failures) at the moment they become observable; the check that owns
  the property turns them into violations, the others log them as cross-observations.
* trigger monitor on PandasModelBase.act_on_expression: records when a null reached a comparison /
  logical operator (the trigger of a recorded divergence), so a workload can tell exactly whether
  an execution was inside a known hazard.
* reach counters: how often each wrapped function ran.
"""
import functools
import os

ARMED = os.environ.get("DATA_ALGEBRA_VERIF", "") == "1"


class Obs:
    def __init__(self):
        self.failures = []      # list of dicts {"property", "where", "detail"}
        self.triggers = set()   # names of hazards seen since last reset
        self.calls = {}
        self.depth = 0

    def reset_case(self):
        self.failures = []
        self.triggers = set()

    def hit(self, k):
        self.calls[k] = self.calls.get(k, 0) + 1


OBS = Obs()
_installed = [False]

CMP_OPS = {"==", "!=", "<", "<=", ">", ">=", "and", "or", "&", "|", "not", "is_in", "if_else", "where", "=", "<>"}


def _snapshot_frame(v):
    tn = type(v).__module__
    if tn.startswith("pandas"):
        return ("pd", v.copy(deep=True), list(v.columns), [str(d) for d in v.dtypes], v.index.copy(), list(v.index.names),
                dict(v.attrs))
    if tn.startswith("polars"):
        import polars as pl

        if isinstance(v, pl.DataFrame):
            return ("pl", v.clone(), list(v.columns), [str(d) for d in v.dtypes], None, None, None)
        return ("pl-lazy", None, None, None, None, None, None)
    return None


def _frame_changed(snap, v):
    kind = snap[0]
    if kind == "pd":
        _, cp, cols, dts, idx, idxnames, attrs = snap
        if list(v.columns) != cols:
            return f"columns changed {cols} -> {list(v.columns)}"
        if [str(d) for d in v.dtypes] != dts:
            return f"dtypes changed {dts} -> {[str(d) for d in v.dtypes]}"
        if not v.index.equals(idx) or list(v.index.names) != idxnames:
            return f"index changed {list(idx)[:6]} -> {list(v.index)[:6]}"
        if not v.equals(cp):
            return "values changed"
        if dict(v.attrs) != attrs:
            return "attrs changed"
        return None
    if kind == "pl":
        _, cp, cols, dts, _, _, _ = snap
        if list(v.columns) != cols:
            return f"columns changed {cols} -> {list(v.columns)}"
        if [str(d) for d in v.dtypes] != dts:
            return "dtypes changed"
        if not v.equals(cp):
            return "values changed"
        return None
    return None


def _result_columns(res):
    try:
        if hasattr(res, "collect_schema"):
            return list(res.collect_schema().names())
        return list(res.columns)
    except Exception:
        return None


def _wrap_eval(orig, name):
    @functools.wraps(orig)
    def wrapper(self, *args, **kw):
        OBS.hit("contract:" + name)
        top = OBS.depth == 0
        OBS.depth += 1
        snaps = []
        try:
            if top:
                dm = None
                if name == "eval":
                    dm = args[0] if args else kw.get("data_map")
                elif name == "transform":
                    x = args[0] if args else kw.get("X")
                    dm = {"X": x}
                elif name == "ex":
                    try:
                        dm = {k: t.head for k, t in self.get_tables().items() if t.head is not None}
                    except Exception:
                        dm = None
                if isinstance(dm, dict):
                    for k, v in dm.items():
                        s = _snapshot_frame(v)
                        if s is not None:
                            snaps.append((k, v, s))
            res = orig(self, *args, **kw)
        finally:
            OBS.depth -= 1
        if top:
            for k, v, s in snaps:
                ch = _frame_changed(s, v)
                if ch:
                    OBS.failures.append({"property": "C19", "where": name, "detail": f"input {k!r}: {ch}"})
            OBS.hit("c19_inputs_checked:" + str(len(snaps)))
        if hasattr(res, "columns") or hasattr(res, "collect_schema"):
            rc = _result_columns(res)
            if rc is not None:
                OBS.hit("c08_results_checked")
                if set(rc) != set(self.column_names) or len(rc) != len(set(rc)):
                    OBS.failures.append({"property": "C08", "where": name,
                                         "detail": f"result columns {rc} != declared {list(self.column_names)} "
                                                   f"({type(self).__name__})"})
        return res

    return wrapper


def _wrap_act_on_expression(orig):
    @functools.wraps(orig)
    def wrapper(self, *, arg, values, op):
        name = op.op
        if name in CMP_OPS:
            OBS.hit("trigger_probe")
            try:
                import pandas

                for v in values:
                    if v is None:
                        OBS.triggers.add("null_cmp")
                    elif hasattr(v, "__len__") and not isinstance(v, (str, dict, list, set, tuple)):
                        if bool(pandas.isnull(v).any()):
                            OBS.triggers.add("null_cmp")
            except Exception:
                pass
        return orig(self, arg=arg, values=values, op=op)

    return wrapper


def _wrap_to_near_sql(orig, name):
    @functools.wraps(orig)
    def wrapper(self, *args, **kw):
        OBS.hit("near_sql:" + name)
        u = kw.get("using")
        if u is not None and len(u) == 0:
            # the consumer of this step needs no column at all from it
            OBS.triggers.add("sql_zero_using")
        return orig(self, *args, **kw)

    return wrapper


def _install_sql_monitors():
    import data_algebra.sql_model as sm
    import data_algebra.SQLite as sl
    import data_algebra.PostgreSQL as pg

    seen = set()
    for cls in (sm.SQLModel, sl.SQLiteModel, pg.PostgreSQLModel):
        for nm, fn in list(vars(cls).items()):
            if nm.endswith("_to_near_sql") and callable(fn) and (cls, nm) not in seen:
                seen.add((cls, nm))
                setattr(cls, nm, _wrap_to_near_sql(fn, nm))


def install():
    """idempotent; wraps the real classes in place"""
    if _installed[0]:
        return
    import data_algebra.view_representations as vr
    import data_algebra.pandas_base as pb

    _install_sql_monitors()

    for nm in ("eval", "transform", "ex"):
        setattr(vr.ViewRepresentation, nm, _wrap_eval(getattr(vr.ViewRepresentation, nm), nm))
    pb.PandasModelBase.act_on_expression = _wrap_act_on_expression(pb.PandasModelBase.act_on_expression)
    _installed[0] = True


def drain(b, own=None):
    """move recorded contract failures into the batch: own property -> violation list returned, others -> counters"""
    mine = []
    for f in OBS.failures:
        if own is not None and f["property"] == own:
            mine.append(f)
        else:
            b.count("cross_observations", f["property"])
            if len(b.counters.setdefault("cross_observation_samples", [])) < 5:
                b.counters["cross_observation_samples"].append(f["property"] + ": " + f["detail"][:200])
    OBS.failures = []
    return mine
