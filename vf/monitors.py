"""Monitors installed from the harness on the real classes (no change to /repo needed).

* contract layer on ViewRepresentation.eval / transform / ex:
    C08  result columns == declared column_names
    C19  every input frame unchanged (values, dtypes, columns, index) after the call
  Failures are *recorded* (OBS.failures) at the moment they become observable; the check that owns
  the property turns them into violations, the others log them as cross-observations.
* trigger monitor on PandasModelBase.act_on_expression: records when a null reached a comparison /
  logical operator (the trigger of a recorded divergence), so a workload can tell exactly whether
  an execution was inside a known hazard.
* reach counters: how often each wrapped function ran.
"""
import functools
import os

ARMED = os.environ.get("DATA_ALGEBRA_VERIF", "") == "1"


class Obs:
    def __init__(self):
        self.failures = []      # list of dicts {"property", "where", "detail"}
        self.triggers = set()   # names of hazards seen since last reset
        self.calls = {}
        self.depth = 0

    def reset_case(self):
        self.failures = []
        self.triggers = set()

    def hit(self, k):
        self.calls[k] = self.calls.get(k, 0) + 1


OBS = Obs()
_installed = [False]

CMP_OPS = {"==", "!=", "<", "<=", ">", ">=", "and", "or", "&", "|", "not", "is_in", "if_else", "where", "=", "<>"}


def _snapshot_frame(v):
    tn = type(v).__module__
    if tn.startswith("pandas"):
        return ("pd", v.copy(deep=True), list(v.columns), [str(d) for d in v.dtypes], v.index.copy(), list(v.index.names),
                dict(v.attrs))
    if tn.startswith("polars"):
        import polars as pl

        if isinstance(v, pl.DataFrame):
            return ("pl", v.clone(), list(v.columns), [str(d) for d in v.dtypes], None, None, None)
        return ("pl-lazy", None, None, None, None, None, None)
    return None


def _frame_changed(snap, v):
    kind = snap[0]
    if kind == "pd":
        _, cp, cols, dts, idx, idxnames, attrs = snap
        if list(v.columns) != cols:
            return f"columns changed {cols} -> {list(v.columns)}"
        if [str(d) for d in v.dtypes] != dts:
            return f"dtypes changed {dts} -> {[str(d) for d in v.dtypes]}"
        if not v.index.equals(idx) or list(v.index.names) != idxnames:
            return f"index changed {list(idx)[:6]} -> {list(v.index)[:6]}"
        if not v.equals(cp):
            return "values changed"
        if dict(v.attrs) != attrs:
            return "attrs changed"
        return None
    if kind == "pl":
        _, cp, cols, dts, _, _, _ = snap
        if list(v.columns) != cols:
            return f"columns changed {cols} -> {list(v.columns)}"
        if [str(d) for d in v.dtypes] != dts:
            return "dtypes changed"
        if not v.equals(cp):
            return "values changed"
        return None
    return None


def _result_columns(res):
    try:
        if hasattr(res, "collect_schema"):
            return list(res.collect_schema().names())
        return list(res.columns)
    except Exception:
        return None


def _wrap_eval(orig, name):
    @functools.wraps(orig)
    def wrapper(self, *args, **kw):
        OBS.hit("contract:" + name)
        top = OBS.depth == 0
        OBS.depth += 1
        snaps = []
        try:
            if top:
                dm = None
                if name == "eval":
                    dm = args[0] if args else kw.get("data_map")
                elif name == "transform":
                    x = args[0] if args else kw.get("X")
                    dm = {"X": x}
                elif name == "ex":
                    try:
                        dm = {k: t.head for k, t in self.get_tables().items() if t.head is not None}
                    except Exception:
                        dm = None
                if isinstance(dm, dict):
                    for k, v in dm.items():
                        s = _snapshot_frame(v)
                        if s is not None:
                            snaps.append((k, v, s))
            res = orig(self, *args, **kw)
        finally:
            OBS.depth -= 1
        if top:
            for k, v, s in snaps:
                ch = _frame_changed(s, v)
                if ch:
                    OBS.failures.append({"property": "C19", "where": name, "detail": f"input {k!r}: {ch}"})
            OBS.hit("c19_inputs_checked:" + str(len(snaps)))
        if hasattr(res, "columns") or hasattr(res, "collect_schema"):
            rc = _result_columns(res)
            if rc is not None:
                OBS.hit("c08_results_checked")
                if set(rc) != set(self.column_names) or len(rc) != len(set(rc)):
                    OBS.failures.append({"property": "C08", "where": name,
                                         "detail": f"result columns {rc} != declared {list(self.column_names)} "
                                                   f"({type(self).__name__})"})
        return res

    return wrapper


def _wrap_act_on_expression(orig):
    @functools.wraps(orig)
    def wrapper(self, *, arg, values, op):
        name = op.op
        if name in CMP_OPS:
            OBS.hit("trigger_probe")
            try:
                import pandas

                for v in values:
                    if v is None:
                        OBS.triggers.add("null_cmp")
                    elif hasattr(v, "__len__") and not isinstance(v, (str, dict, list, set, tuple)):
                        if bool(pandas.isnull(v).any()):
                            OBS.triggers.add("null_cmp")
            except Exception:
                pass
        if name in ("concat", "%+%"):
            # text concatenation with a missing operand: 'NoneNone' / 'nan...' on Pandas, NULL in SQL (a recorded
            # convention point the generators keep out of; the shrinker may drift into it)
            try:
                import pandas

                for v in values:
                    if v is None or (hasattr(v, "__len__") and not isinstance(v, (str, dict, list, set, tuple)) and bool(pandas.isnull(v).any())):
                        OBS.triggers.add("str_null")
            except Exception:
                pass
        if name in ("sin", "cos") and len(values) == 1:
            # sin / cos of a huge argument amplify the last-bit differences of whatever computed the argument
            # (var() = 249999041502.848 vs ...502.84793 gives sines 7e-5 apart): ill-conditioned, not judged
            try:
                import numpy

                aa = numpy.asarray(values[0], dtype="float64")
                with numpy.errstate(all="ignore"):
                    if aa.size and bool(numpy.nanmax(numpy.abs(aa[numpy.isfinite(aa)]), initial=0.0) > 1e5):
                        OBS.triggers.add("ill_conditioned_trig")
            except Exception:
                pass
        if name in ("<", "<=", ">", ">=", "==", "!=") and len(values) == 2:
            # a comparison whose float operands are (nearly) tied is decided by the last bit of the math library in use:
            # engines legitimately differ there (tanh(19) is 1.0 in numpy and 0.99999999999999989 in SQLite's libm)
            try:
                import numpy

                a, c = values
                fa = getattr(a, "dtype", None) is not None and a.dtype.kind == "f" or isinstance(a, float)
                fc = getattr(c, "dtype", None) is not None and c.dtype.kind == "f" or isinstance(c, float)
                if (fa or fc) and not isinstance(a, str) and not isinstance(c, str):
                    aa = numpy.asarray(a, dtype="float64")
                    cc = numpy.asarray(c, dtype="float64")
                    with numpy.errstate(all="ignore"):
                        close = numpy.isclose(aa, cc, rtol=1e-9, atol=1e-12)
                    if bool(numpy.any(close)):
                        OBS.triggers.add("float_tie_cmp")
            except Exception:
                pass
        return orig(self, arg=arg, values=values, op=op)

    return wrapper


def _wrap_to_near_sql(orig, name):
    @functools.wraps(orig)
    def wrapper(self, *args, **kw):
        OBS.hit("near_sql:" + name)
        u = kw.get("using")
        if u is not None and len(u) == 0:
            # the consumer of this step needs no column at all from it
            OBS.triggers.add("sql_zero_using")
        return orig(self, *args, **kw)

    return wrapper


def _install_sql_monitors():
    import data_algebra.sql_model as sm
    import data_algebra.SQLite as sl
    import data_algebra.PostgreSQL as pg

    seen = set()
    for cls in (sm.SQLModel, sl.SQLiteModel, pg.PostgreSQLModel):
        for nm, fn in list(vars(cls).items()):
            if nm.endswith("_to_near_sql") and callable(fn) and (cls, nm) not in seen:
                seen.add((cls, nm))
                setattr(cls, nm, _wrap_to_near_sql(fn, nm))


def install():
    """idempotent; wraps the real classes in place"""
    if _installed[0]:
        return
    import data_algebra.view_representations as vr
    import data_algebra.pandas_base as pb

    _install_sql_monitors()

    for nm in ("eval", "transform", "ex"):
        setattr(vr.ViewRepresentation, nm, _wrap_eval(getattr(vr.ViewRepresentation, nm), nm))
    pb.PandasModelBase.act_on_expression = _wrap_act_on_expression(pb.PandasModelBase.act_on_expression)
    _installed[0] = True


# ------------------------------------------------------------------ C09: invariant at the executor steps
_in_hook = [False]
_step_hooks = [False]


def _rows(frame, cols):
    from vf.compare import to_rows

    return to_rows(frame, cols)


def _agg_ref(name, vals):
    """reference value of a simple aggregate over a list of normalised cells (None = null); returns (ok, value)"""
    nn = [v for v in vals if v is not None]
    if len(vals) == 0:
        # aggregate over an empty group (ungrouped project of an empty input): min/max/mean are null everywhere,
        # sum/count/size are the accepted convention point (0 or NULL)
        if name in ("min", "max", "mean"):
            return True, None
        return False, None
    if name in ("size", "_size"):
        return True, len(vals)
    if name == "count":
        return True, len(nn)
    if name == "sum":
        if not nn:
            return False, None  # accepted convention point (0 or NULL)
        if any(isinstance(v, str) for v in nn):
            return False, None
        return True, sum(nn)
    if name in ("min", "max"):
        if any(isinstance(v, str) for v in nn):
            return False, None
        if not nn:
            return True, None
        return True, (min(nn) if name == "min" else max(nn))
    if name == "mean":
        if not nn:
            return True, None
        if any(isinstance(v, str) for v in nn):
            return False, None
        return True, sum(nn) / len(nn)
    return False, None


def check_agg_node(op, inp, res, where):
    """C09 invariants for one project / windowed-extend node given its materialised input and output.
    returns list of failure strings; also counts what was compared in OBS.calls"""
    import data_algebra.expr_rep as er
    from vf.compare import cell_eq

    fails = []
    kind = op.node_name
    try:
        n_in = inp.shape[0] if hasattr(inp, "shape") else inp.height
        n_out = res.shape[0] if hasattr(res, "shape") else res.height
    except Exception:
        return fails
    if kind == "ProjectNode":
        keys = list(op.group_by)
        if not keys:
            OBS.hit("c09:project-nogroup:" + where)
            if n_in == 0:
                OBS.hit("c09:project-nogroup-empty-input:" + where)
            if n_out != 1:
                fails.append(f"project without group_by returned {n_out} rows (input {n_in} rows)")
                return fails
            in_groups = {(): _rows(inp, sorted(inp.columns, key=str))}
            colidx = {c: i for i, c in enumerate(sorted(inp.columns, key=str))}
        else:
            OBS.hit("c09:project-group:" + where)
            cols = sorted(inp.columns, key=str)
            colidx = {c: i for i, c in enumerate(cols)}
            in_groups = {}
            for r in _rows(inp, cols):
                in_groups.setdefault(tuple(r[colidx[k]] for k in keys), []).append(r)
            if any(any(x is None for x in k) for k in in_groups):
                OBS.hit("c09:null-key-group:" + where)
            if n_out != len(in_groups):
                fails.append(f"project group_by={keys} returned {n_out} rows for {len(in_groups)} distinct key "
                             f"combinations {sorted(map(repr, in_groups))[:6]}")
                return fails
        ocols = list(res.columns)
        oidx = {c: i for i, c in enumerate(ocols)}
        for r in _rows(res, ocols):
            k = tuple(r[oidx[c]] for c in keys)
            if k not in in_groups:
                # tolerate float keys that differ in representation
                match = [g for g in in_groups if len(g) == len(k) and all(cell_eq(a, b) for a, b in zip(g, k))]
                if not match:
                    fails.append(f"project output key {k} is not a key combination of the input")
                    continue
                k = match[0]
            for c, e in op.ops.items():
                if c not in oidx or not isinstance(e, er.Expression):
                    continue
                fails.extend(_check_agg_value(e, c, r[oidx[c]], in_groups[k], colidx, k, where))
    elif kind == "ExtendNode":
        if not (op.windowed_situation or len(op.partition_by) > 0 or len(op.order_by) > 0):
            return fails
        OBS.hit("c09:window:" + where)
        if n_out != n_in:
            fails.append(f"windowed extend changed the number of rows {n_in} -> {n_out}")
            return fails
        if len(op.order_by) > 0:
            return fails  # per-row values of ordered windows are C27's business
        keys = list(op.partition_by)
        cols = sorted(inp.columns, key=str)
        colidx = {c: i for i, c in enumerate(cols)}
        in_groups = {}
        for r in _rows(inp, cols):
            in_groups.setdefault(tuple(r[colidx[k]] for k in keys), []).append(r)
        if any(any(x is None for x in k) for k in in_groups):
            OBS.hit("c09:null-key-partition:" + where)
        ocols = list(res.columns)
        oidx = {c: i for i, c in enumerate(ocols)}
        for r in _rows(res, ocols):
            k = tuple(r[oidx[c]] for c in keys)
            if k not in in_groups:
                match = [g for g in in_groups if len(g) == len(k) and all(cell_eq(a, b) for a, b in zip(g, k))]
                if not match:
                    fails.append(f"windowed extend output row has partition key {k} not present in its input")
                    continue
                k = match[0]
            for c, e in op.ops.items():
                if c not in oidx or not isinstance(e, er.Expression):
                    continue
                fails.extend(_check_agg_value(e, c, r[oidx[c]], in_groups[k], colidx, k, where))
    return fails[:3]


def _check_agg_value(e, c, got, group_rows, colidx, key, where):
    import data_algebra.expr_rep as er
    from vf.compare import cell_eq

    name = e.op
    if len(e.args) == 0:
        vals = [1] * len(group_rows)
    elif isinstance(e.args[0], er.ColumnReference):
        if e.args[0].column_name not in colidx:
            return []
        j = colidx[e.args[0].column_name]
        vals = [r[j] for r in group_rows]
    elif isinstance(e.args[0], er.Value):
        vals = [e.args[0].value] * len(group_rows)
        from vf.compare import norm_cell
        vals = [norm_cell(v) for v in vals]
    else:
        return []
    ok, want = _agg_ref(name, vals)
    if not ok:
        return []
    OBS.hit("c09:values-compared:" + where)
    if not cell_eq(got, want):
        return [f"{c} = {name}(...) over group {key} is {got!r}, expected {want!r} (group values {vals[:8]})"]
    return []


def _nondeterministic(op):
    """True when the sub-DAG under op draws random numbers (uniform()): evaluating it a second time gives a
    different input, so the hook has no input to compare the step's output with"""
    import data_algebra.expr_rep as er

    def expr_random(e):
        if isinstance(e, er.Expression):
            if e.op in ("uniform", "_uniform"):
                return True
            return any(expr_random(a) for a in e.args)
        return False

    seen = set()
    stack = [op]
    while stack:
        o = stack.pop()
        if id(o) in seen:
            continue
        seen.add(id(o))
        ops = getattr(o, "ops", None)
        if isinstance(ops, dict) and any(expr_random(e) for e in ops.values()):
            return True
        ex = getattr(o, "expr", None)
        if ex is not None and expr_random(ex):
            return True
        stack.extend(getattr(o, "sources", []) or [])
    return False


def _wrap_step(orig, source_eval_name, where):
    @functools.wraps(orig)
    def wrapper(self, op, *, data_map):
        res = orig(self, op=op, data_map=data_map)
        if _in_hook[0]:
            return res
        _in_hook[0] = True
        try:
            if _nondeterministic(op.sources[0]):
                OBS.hit("c09:skipped-random-source:" + where)
                return res
            inp = getattr(self, source_eval_name)(op.sources[0], data_map=data_map)
            r2 = res
            if hasattr(inp, "collect"):
                inp = inp.collect()
            if hasattr(r2, "collect"):
                r2 = r2.collect()
            for f in check_agg_node(op, inp, r2, where):
                OBS.failures.append({"property": "C09", "where": where, "detail": f + " | node: " +
                                     op.to_python_src_(print_sources=False, indent=-1)[:300]})
        except Exception as ex:  # the hook must never disturb the execution it observes
            OBS.hit("c09:hook-error:" + type(ex).__name__)
        finally:
            _in_hook[0] = False
        return res

    return wrapper


def install_step_hooks():
    """wrap project / extend steps of the Pandas and Polars executors (class level for new instances, dispatch
    table entries for the already registered model instances)"""
    if _step_hooks[0]:
        return
    import data_algebra.data_model as dm
    import data_algebra.pandas_base as pb
    import data_algebra.polars_model as pm

    pb.PandasModelBase._project_step = _wrap_step(pb.PandasModelBase._project_step, "_eval_value_source", "pandas")
    pb.PandasModelBase._extend_step = _wrap_step(pb.PandasModelBase._extend_step, "_eval_value_source", "pandas")
    pm.PolarsModel._project_step = _wrap_step(pm.PolarsModel._project_step, "_compose_polars_ops", "polars")
    pm.PolarsModel._extend_step = _wrap_step(pm.PolarsModel._extend_step, "_compose_polars_ops", "polars")
    try:
        pm.register_polars_model()
    except Exception:
        pass
    for inst in list(getattr(dm, "data_model_type_map", {}).values()):
        tbl = getattr(inst, "_method_dispatch_table", None)
        if isinstance(tbl, dict):
            tbl["ProjectNode"] = inst._project_step
            tbl["ExtendNode"] = inst._extend_step
    _step_hooks[0] = True


def drain(b, own=None):
    """move recorded contract failures into the batch: own property -> violation list returned, others -> counters"""
    mine = []
    for f in OBS.failures:
        if own is not None and f["property"] == own:
            mine.append(f)
        else:
            b.count("cross_observations", f["property"])
            if len(b.counters.setdefault("cross_observation_samples", [])) < 5:
                b.counters["cross_observation_samples"].append(f["property"] + ": " + f["detail"][:200])
    OBS.failures = []
    return mine
