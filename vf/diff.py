"""Shared machinery for the differential / metamorphic pipeline checks: case generation,
serialisation, greedy shrinking, replay."""
import copy
import json

from vf import build as B
from vf.gen import core, recipes as R
from vf.util import exc_str


def new_case(rng, profile, tier, counters=None, n_tables=None, max_rows=None, null_ps=(0, 0, 0.2, 0.6)):
    mr = max_rows or (8 if tier == "quick" else rng.choice([8, 8, 20, 40]))
    last = None
    for _ in range(5):
        tables = R.gen_tables(rng, n_tables, max_rows=mr, null_ps=null_ps)
        g = R.Gen(rng, tables, profile, counters)
        try:
            recipe, st, info = g.pipeline()
        except Exception as ex:  # generator-internal failure: not an observation about the repository
            last = ex
            if counters is not None:
                k = "gen_internal_error:" + type(ex).__name__
                counters[k] = counters.get(k, 0) + 1
            continue
        return {"tables": tables, "recipe": recipe, "final_order": info["final_order"]}, st
    raise last


def frames_of(case):
    return {t["name"]: core.table_frame(t) for t in case["tables"]}


def used_frames(case):
    names = set(B.tables_of(case["recipe"]))
    return {t["name"]: core.table_frame(t) for t in case["tables"] if t["name"] in names}


def case_json(case, extra=None):
    d = {"tables": case["tables"], "recipe": case["recipe"], "final_order": case.get("final_order")}
    if extra:
        d.update(extra)
    return json.loads(json.dumps(d, default=str))


def describe(case):
    try:
        return B.build(case["recipe"]).to_python(pretty=False).strip()
    except Exception as ex:
        return "<unprintable: %s>" % exc_str(ex)


def final_order_of(recipe):
    if recipe["op"] == "order_rows":
        return (recipe["cols"], recipe.get("reverse") or [])
    return None


def shrink(case, fails, budget=120):
    """greedy delta debugging with the same oracle; `fails(case) -> bool` (must not raise)"""
    best = case
    calls = [0]

    def ok(c):
        calls[0] += 1
        if calls[0] > budget:
            return False
        try:
            return bool(fails(c))
        except Exception:
            return False

    # 1. shortest failing prefix of the spine / sub-trees
    improved = True
    while improved:
        improved = False
        r = best["recipe"]
        cands = []
        if r["op"] != "table":
            cands.append(r["src"])
            if "right" in r and r["right"]["op"] != "table":
                cands.append(r["right"])
        for sub in cands:
            if sub["op"] == "table":
                continue
            c = dict(best)
            c["recipe"] = sub
            c["final_order"] = final_order_of(sub)
            if ok(c):
                best = c
                improved = True
                break
    # 2. drop interior nodes of the spine
    improved = True
    while improved and calls[0] < budget:
        improved = False
        sp = B.spine(best["recipe"])
        for i in range(1, len(sp) - 1):
            new_root = rebuild_without(best["recipe"], sp[i])
            if new_root is None:
                continue
            c = dict(best)
            c["recipe"] = new_root
            if ok(c):
                best = c
                improved = True
                break
    # 3. drop rows
    for ti in range(len(best["tables"])):
        i = 0
        while i < len(best["tables"][ti]["rows"]) and calls[0] < budget:
            c = copy.deepcopy({"tables": best["tables"]})
            del c["tables"][ti]["rows"][i]
            c2 = dict(best)
            c2["tables"] = c["tables"]
            if ok(c2):
                best = c2
            else:
                i += 1
    # 4. drop assignments in multi-assignment extend / project
    improved = True
    while improved and calls[0] < budget:
        improved = False
        for n in B.walk(best["recipe"]):
            if n["op"] in ("extend", "project") and len(n["ops"]) > 1:
                for j in range(len(n["ops"])):
                    saved = n["ops"]
                    n["ops"] = saved[:j] + saved[j + 1:]
                    if ok(best):
                        improved = True
                        break
                    n["ops"] = saved
                if improved:
                    break
    return best


def rebuild_without(root, victim):
    """copy of the spine of `root` with node `victim` removed (victim.src takes its place)"""
    if root is victim:
        return victim["src"]
    if root["op"] == "table":
        return None
    new_src = rebuild_without(root["src"], victim)
    if new_src is None:
        return None
    n = dict(root)
    n["src"] = new_src
    return n
