"""Mechanism predicates used to attribute a failing case to a *listed* known finding.
Each predicate is deliberately narrow: it tests for the mechanism, never for a seed or hash."""


def zero_need_nodes(ops):
    """names of node kinds from which their consumer needs *no* column at all (the SQL generator cannot
    express 'rows but no columns', several translation paths refuse or emit an ambiguous SELECT)"""
    found = []

    def walk(node, using):
        try:
            cu = node.columns_used_from_sources(using)
        except Exception:
            return
        for s, u in zip(node.sources, cu):
            u = set(u) if u is not None else set(s.column_names)
            if len(u) == 0:
                found.append(type(node).__name__ + "<-" + type(s).__name__)
            walk(s, u if len(u) else set(s.column_names))

    walk(ops, set(ops.column_names))
    return found


def sql_zero_need(ops):
    return len(zero_need_nodes(ops)) > 0
