"""Dialect lexers written from each dialect's lexical-structure documentation (Spark's rules were calibrated against the
real Spark 4.2 in this sandbox).  tokens(sql, dialect) -> list of (kind, raw, value); kinds: str, ident, num, word,
punct, comment.  A LexError means the text cannot be tokenised in that dialect (unterminated literal / identifier /
comment, illegal escape, adjacent string literals where the dialect has no implicit concatenation).

dialect          string literals                                    quoted identifiers         comments
sqlite           '..' ('' = ')                                       ".." ("" = "), `..`, [..]   --, /* */
postgresql       '..' ('' = '), E'..' (backslash escapes), $t$..$t$  ".." ("" = ")              --, /* */ nested
mysql            '..' and ".." ('' / "" and backslash escapes)       `..` (`` = `)              -- , #, /* */
bigquery         '..' and ".." (backslash escapes only), triple      `..` (backslash escapes)   --, #, /* */
spark            '..' and ".." ('' / "" and backslash escapes)       `..` (`` = `)              --, /* */
"""


class LexError(Exception):
    pass


BS_MYSQL = {"0": "\0", "'": "'", '"': '"', "b": "\b", "n": "\n", "r": "\r", "t": "\t", "Z": "\x1a", "\\": "\\", "%": "\\%", "_": "\\_"}
BS_SPARK = {"0": "\0", "'": "'", '"': '"', "b": "\b", "n": "\n", "r": "\r", "t": "\t", "Z": "\x1a", "\\": "\\", "%": "\\%", "_": "\\_"}
BS_BQ = {"a": "\a", "b": "\b", "f": "\f", "n": "\n", "r": "\r", "t": "\t", "v": "\v", "\\": "\\", "?": "?", '"': '"', "'": "'", "`": "`"}


def _read_quoted(s, i, q, dialect, is_ident=False):
    """s[i] == q; returns (value, next index)"""
    n = len(s)
    j = i + 1
    out = []
    backslash = (dialect in ("mysql", "spark", "bigquery")) and not (is_ident and dialect in ("mysql", "spark"))
    doubling = not (dialect == "bigquery")
    while True:
        if j >= n:
            raise LexError(f"unterminated {'identifier' if is_ident else 'string literal'} starting at offset {i}: {s[i:i + 40]!r}")
        c = s[j]
        if backslash and c == "\\":
            if j + 1 >= n:
                raise LexError(f"backslash at end of input inside a literal starting at offset {i}")
            e = s[j + 1]
            if dialect == "bigquery":
                if e in BS_BQ:
                    out.append(BS_BQ[e])
                    j += 2
                elif e in "01234567" and j + 3 < n and all(ch in "01234567" for ch in s[j + 1:j + 4]):
                    out.append(chr(int(s[j + 1:j + 4], 8)))
                    j += 4
                elif e in "xX" and j + 3 < n:
                    out.append(chr(int(s[j + 2:j + 4], 16)))
                    j += 4
                elif e == "u" and j + 5 < n:
                    out.append(chr(int(s[j + 2:j + 6], 16)))
                    j += 6
                else:
                    raise LexError(f"illegal escape sequence \\{e} in a BigQuery literal at offset {j}")
            else:
                tab = BS_MYSQL if dialect == "mysql" else BS_SPARK
                if dialect == "spark" and e == "u" and j + 5 < n and all(ch in "0123456789abcdefABCDEF" for ch in s[j + 2:j + 6]):
                    out.append(chr(int(s[j + 2:j + 6], 16)))
                    j += 6
                elif dialect == "spark" and e in "01234567" and j + 3 < n and all(ch in "01234567" for ch in s[j + 1:j + 4]):
                    out.append(chr(int(s[j + 1:j + 4], 8)))
                    j += 4
                else:
                    out.append(tab.get(e, e))
                    j += 2
            continue
        if c == q:
            if doubling and j + 1 < n and s[j + 1] == q:
                out.append(q)
                j += 2
                continue
            return "".join(out), j + 1
        out.append(c)
        j += 1


def tokens(sql, dialect):
    s = sql
    n = len(s)
    i = 0
    out = []
    str_quotes = {"sqlite": "'", "postgresql": "'", "mysql": "'\"", "bigquery": "'\"", "spark": "'\""}[dialect]
    id_quotes = {"sqlite": '"`', "postgresql": '"', "mysql": "`", "bigquery": "`", "spark": "`"}[dialect]
    hash_comment = dialect in ("mysql", "bigquery")
    last_str_end = None
    while i < n:
        c = s[i]
        if c.isspace():
            i += 1
            continue
        if s.startswith("--", i) and (dialect != "mysql" or i + 2 >= n or s[i + 2].isspace() or True):
            j = s.find("\n", i)
            j = n if j < 0 else j
            out.append(("comment", s[i:j], s[i + 2:j]))
            i = j
            continue
        if hash_comment and c == "#":
            j = s.find("\n", i)
            j = n if j < 0 else j
            out.append(("comment", s[i:j], s[i + 1:j]))
            i = j
            continue
        if s.startswith("/*", i):
            depth = 1
            j = i + 2
            while depth > 0:
                if j >= n:
                    raise LexError(f"unterminated block comment starting at offset {i}")
                if s.startswith("*/", j):
                    depth -= 1
                    j += 2
                elif dialect == "postgresql" and s.startswith("/*", j):
                    depth += 1
                    j += 2
                else:
                    j += 1
            out.append(("comment", s[i:j], s[i + 2:j - 2]))
            i = j
            continue
        if dialect == "bigquery" and (s.startswith("'''", i) or s.startswith('"""', i)):
            q3 = s[i:i + 3]
            j = s.find(q3, i + 3)
            if j < 0:
                raise LexError(f"unterminated triple-quoted literal at offset {i}")
            out.append(("str", s[i:j + 3], s[i + 3:j]))
            i = j + 3
            continue
        if dialect == "postgresql" and c == "$":
            j = i + 1
            while j < n and (s[j].isalnum() or s[j] == "_"):
                j += 1
            if j < n and s[j] == "$":
                tag = s[i:j + 1]
                k = s.find(tag, j + 1)
                if k < 0:
                    raise LexError(f"unterminated dollar-quoted literal {tag} at offset {i}")
                out.append(("str", s[i:k + len(tag)], s[j + 1:k]))
                i = k + len(tag)
                continue
        if dialect == "postgresql" and c in "eE" and i + 1 < n and s[i + 1] == "'":
            v, j = _read_quoted(s, i + 1, "'", "mysql")
            out.append(("str", s[i:j], v))
            i = j
            continue
        if c in str_quotes:
            v, j = _read_quoted(s, i, c, dialect)
            if dialect == "bigquery" and last_str_end is not None and s[last_str_end:i].strip() == "":
                raise LexError(f"adjacent string literals at offset {i} (BigQuery has no implicit concatenation; a doubled quote is not an escape)")
            out.append(("str", s[i:j], v))
            i = j
            last_str_end = j
            continue
        if c in id_quotes:
            v, j = _read_quoted(s, i, c, dialect, is_ident=True)
            out.append(("ident", s[i:j], v))
            i = j
            continue
        if dialect == "sqlite" and c == "[":
            j = s.find("]", i)
            if j < 0:
                raise LexError(f"unterminated [identifier] at offset {i}")
            out.append(("ident", s[i:j + 1], s[i + 1:j]))
            i = j + 1
            continue
        if c.isdigit() or (c == "." and i + 1 < n and s[i + 1].isdigit()):
            j = i
            while j < n and (s[j].isalnum() or s[j] in "._" or (s[j] in "+-" and s[j - 1] in "eE")):
                j += 1
            out.append(("num", s[i:j], s[i:j]))
            i = j
            continue
        if c.isalpha() or c == "_":
            j = i
            while j < n and (s[j].isalnum() or s[j] in "_$"):
                j += 1
            out.append(("word", s[i:j], s[i:j].upper()))
            i = j
            continue
        out.append(("punct", c, c))
        i += 1
    return out


def lex(sql, dialect):
    """None when the text tokenises to the end, else a description"""
    try:
        tokens(sql, dialect)
    except LexError as ex:
        return f"{dialect} lexer: {ex}"
    return None


def skeleton(toks):
    """token-kind skeleton with literals and identifiers abstracted (comments dropped)"""
    out = []
    for kind, raw, val in toks:
        if kind == "comment":
            continue
        if kind in ("str", "ident", "num"):
            out.append(kind)
        else:
            out.append(val)
    return out
