"""recipe (JSON-able tree) -> data_algebra pipeline, through the public builder methods only.

A recipe node is a dict {"op": ..., "src": node, ["right": node], args...}.  Sub-trees shared by
object identity are built once (shared sub-DAG).  `nm` is an optional renaming of columns/tables
(logical name -> actual name) applied everywhere a name occurs.
"""
from vf.gen import core


def _n(nm, name):
    if nm is None:
        return name
    return nm.get(name, name)


def _tn(nm, name):
    if nm is None:
        return name
    return nm.get("table:" + name, name)


def needs_terms(recipe, nm):
    """True if some column name cannot be written in expression text"""
    if nm is None:
        return False
    return any((not k.startswith("table:")) and (not core.is_plain_name(v)) for k, v in nm.items())


def expr_value(e, nm, use_terms):
    if use_terms:
        return core.to_term(e, nm)
    return core.render(e, nm)


HOLD = None  # when a list: every mutable argument container handed to a builder method is recorded here


def _h(x):
    """record a caller-side argument container (list / dict) that is passed to a builder"""
    if HOLD is not None and isinstance(x, (list, dict)):
        HOLD.append(x)
    return x


core.HOLD_HOOK = _h


def scramble(held):
    """what a caller may do with its own lists / dicts after the pipeline was built: change them"""
    n = 0
    for x in held:
        if isinstance(x, list):
            x.reverse()
            x.append("zz_scrambled__")
            n += 1
        elif isinstance(x, dict):
            for k in list(x.keys())[:1]:
                del x[k]
            x["zz_scrambled__"] = "zz_scrambled__"
            n += 1
    return n


def build(node, nm=None, use_terms=False, memo=None):
    import data_algebra
    from data_algebra.view_representations import TableDescription

    if memo is None:
        # top-level call: with Term objects, one expression object used in two places of the recipe stays one object
        memo = {}
        if use_terms and core.TERM_MEMO is None:
            core.TERM_MEMO = {}
            try:
                return build(node, nm, use_terms, memo)
            finally:
                core.TERM_MEMO = None
    if id(node) in memo:
        return memo[id(node)]
    op = node["op"]
    if op == "table":
        r = TableDescription(table_name=_tn(nm, node["name"]), column_names=_h([_n(nm, c) for c in node["cols"]]),
                             qualifiers=node.get("qualifiers"))
        memo[id(node)] = r
        return r
    src = build(node["src"], nm, use_terms, memo)
    if op == "extend":
        ops = {_n(nm, c): expr_value(e, nm, use_terms) for c, e in node["ops"]}
        pb = node.get("partition_by")
        if isinstance(pb, list):
            pb = [_n(nm, c) for c in pb]
        ob = node.get("order_by")
        if isinstance(ob, list):
            ob = [_n(nm, c) for c in ob]
        rv = node.get("reverse")
        if isinstance(rv, list):
            rv = [_n(nm, c) for c in rv]
        r = src.extend(_h(ops), partition_by=_h(pb), order_by=_h(ob), reverse=_h(rv))
    elif op == "project":
        ops = {_n(nm, c): expr_value(e, nm, use_terms) for c, e in node["ops"]}
        gb = node.get("group_by")
        if isinstance(gb, list):
            gb = [_n(nm, c) for c in gb]
        r = src.project(_h(ops), group_by=_h(gb))
    elif op == "select_rows":
        r = src.select_rows(expr_value(node["expr"], nm, use_terms))
    elif op == "select_columns":
        r = src.select_columns(_h([_n(nm, c) for c in node["cols"]]))
    elif op == "drop_columns":
        r = src.drop_columns(_h([_n(nm, c) for c in node["cols"]]))
    elif op == "rename_columns":
        r = src.rename_columns(_h({_n(nm, new): _n(nm, old) for new, old in node["map"]}))
    elif op == "map_columns":
        r = src.map_columns(_h({_n(nm, old): (None if new is None else _n(nm, new)) for old, new in node["map"]}))
    elif op == "order_rows":
        r = src.order_rows(_h([_n(nm, c) for c in node["cols"]]), reverse=_h([_n(nm, c) for c in node.get("reverse") or []]),
                           limit=node.get("limit"))
    elif op == "natural_join":
        right = build(node["right"], nm, use_terms, memo)
        on = node["on"]
        if on and isinstance(on[0], (list, tuple)):
            on = [(_n(nm, a), _n(nm, b)) for a, b in on]
        else:
            on = [_n(nm, c) for c in on]
        kw = {}
        if node.get("check"):
            kw["check_all_common_keys_in_equi_spec"] = True
        if node.get("check_by"):
            kw["check_all_common_keys_in_by"] = True
        if node.get("legacy_by"):
            r = src.natural_join(right, by=_h(on), jointype=node["jointype"], **kw)
        else:
            r = src.natural_join(right, on=_h(on), jointype=node["jointype"], **kw)
    elif op == "concat_rows":
        right = build(node["right"], nm, use_terms, memo)
        idc = node.get("id_column")
        r = src.concat_rows(right, id_column=None if idc is None else _n(nm, idc),
                            a_name=node.get("a_name", "a"), b_name=node.get("b_name", "b"))
    elif op == "convert_records":
        r = src.convert_records(build_record_map(node["record_map"], nm))
    else:
        raise ValueError("unknown recipe op " + op)
    memo[id(node)] = r
    return r


def build_record_map(rm, nm=None):
    """rm: {"blocks_in": spec|None, "blocks_out": spec|None, "strict": bool}; spec = {"control_table":
    {"cols":[...], "rows":[[...]]}, "record_keys":[..], "control_table_keys":[..]}"""
    import pandas
    import data_algebra.cdata as cdata

    def spec(s):
        if s is None:
            return None
        nk = len(s.get("control_table_keys") or [])
        # names under a renaming: control-table column names, record keys and the content names (cells of the value
        # columns are column names of the row-record form); cells of the key columns are data, not names
        ct = pandas.DataFrame({_n(nm, c): [(r[j] if j < nk else _n(nm, r[j])) for r in s["control_table"]["rows"]] for j, c in
                               enumerate(s["control_table"]["cols"])})
        if s.get("col_order"):
            # the control table as the user laid it out: key columns need not come first
            ct = ct[[_n(nm, c) for c in s["col_order"]]]
        return cdata.RecordSpecification(ct, record_keys=[_n(nm, c) for c in (s.get("record_keys") or [])],
                                         control_table_keys=[_n(nm, c) for c in (s.get("control_table_keys") or [])],
                                         strict=bool(s.get("strict", False)))

    return cdata.RecordMap(blocks_in=spec(rm.get("blocks_in")), blocks_out=spec(rm.get("blocks_out")),
                           strict=bool(rm.get("strict", False)))


def tables_of(node, out=None, seen=None):
    if out is None:
        out = {}
        seen = set()
    if id(node) in seen:
        return out
    seen.add(id(node))
    if node["op"] == "table":
        out[node["name"]] = node
    else:
        tables_of(node["src"], out, seen)
        if "right" in node:
            tables_of(node["right"], out, seen)
    return out


def walk(node, seen=None):
    """post-order distinct nodes"""
    if seen is None:
        seen = set()
    if id(node) in seen:
        return
    seen.add(id(node))
    if node["op"] != "table":
        yield from walk(node["src"], seen)
        if "right" in node:
            yield from walk(node["right"], seen)
    yield node


def op_sequence(node):
    return [n["op"] for n in walk(node)]


def depth(node):
    if node["op"] == "table":
        return 0
    d = depth(node["src"])
    if "right" in node:
        d = max(d, depth(node["right"]))
    return d + 1


def spine(node):
    """list of nodes from the leaf table to `node` following src"""
    out = []
    while True:
        out.append(node)
        if node["op"] == "table":
            break
        node = node["src"]
    return list(reversed(out))
