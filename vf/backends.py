"""How executions are produced: Pandas, Polars (eager / lazy), SQLite (real engine, repo's own
DBHandle), PostgreSQL-dialect text on a SQLite surrogate with PostgreSQL-named shims."""
import math
import statistics
import sqlite3


def run_pandas(ops, frames):
    return ops.eval({k: v.copy() for k, v in frames.items()})


class Sqlite:
    """one in-memory SQLite connection prepared by the repository's own prepare_connection"""

    def __init__(self):
        import data_algebra.SQLite

        self.model = data_algebra.SQLite.SQLiteModel()
        conn = sqlite3.connect(":memory:")
        self.model.prepare_connection(conn)
        self.handle = self.model.db_handle(conn)
        self.loaded = set()

    def load(self, frames):
        for k in list(self.loaded):
            self.handle.drop_table(k)
        self.loaded = set()
        for k, v in frames.items():
            self.handle.insert_table(v, table_name=k, allow_overwrite=True)
            self.loaded.add(k)

    def to_sql(self, ops, **kw):
        return self.model.to_sql(ops, **kw)

    def run_sql(self, sql):
        return self.handle.read_query(sql)

    def run(self, ops, frames, **kw):
        self.load(frames)
        return self.run_sql(self.to_sql(ops, **kw))

    def close(self):
        try:
            self.handle.close()
        except Exception:
            pass


# ---------------------------------------------------------------- PostgreSQL surrogate
class _Stat:
    def __init__(self):
        self.v = []

    def step(self, x):
        if x is not None:
            self.v.append(float(x))

    def inverse(self, x):
        if x is not None:
            self.v.remove(float(x))


class _StdSamp(_Stat):
    def finalize(self):
        return statistics.stdev(self.v) if len(self.v) >= 2 else None

    value = finalize


class _VarSamp(_Stat):
    def finalize(self):
        return statistics.variance(self.v) if len(self.v) >= 2 else None

    value = finalize


def _nullsafe(f):
    def g(*a):
        if any(x is None for x in a):
            return None
        try:
            return f(*a)
        except (ValueError, OverflowError, ZeroDivisionError):
            return None

    return g


class PgSurrogate:
    """PostgreSQL-dialect text executed on SQLite 3.40 with the double-quoted-string fallback disabled and
    PostgreSQL-named functions registered with PostgreSQL's documented semantics."""

    def __init__(self):
        import data_algebra.PostgreSQL

        self.model = data_algebra.PostgreSQL.PostgreSQLModel()
        self.conn = sqlite3.connect(":memory:")
        try:
            self.conn.setconfig(sqlite3.SQLITE_DBCONFIG_DQS_DML, False)
            self.conn.setconfig(sqlite3.SQLITE_DBCONFIG_DQS_DDL, False)
        except Exception:
            pass
        c = self.conn
        c.create_function("LN", 1, _nullsafe(math.log), deterministic=True)
        c.create_function("is_bad", 1, lambda x: 1 if (x is None or (isinstance(x, float) and (math.isnan(x) or math.isinf(x)))) else 0)
        for nm, cls in (("STDDEV_SAMP", _StdSamp), ("VAR_SAMP", _VarSamp), ("STDDEV", _StdSamp), ("VARIANCE", _VarSamp)):
            try:
                c.create_window_function(nm, 1, cls)
            except Exception:
                c.create_aggregate(nm, 1, cls)
        self.loaded = set()

    def load(self, frames):
        cur = self.conn.cursor()
        for k in list(self.loaded):
            cur.execute('DROP TABLE IF EXISTS "%s"' % k.replace('"', '""'))
        self.loaded = set()
        for k, v in frames.items():
            v.to_sql(name=k, con=self.conn, index=False)
            self.loaded.add(k)

    def to_sql(self, ops, **kw):
        return self.model.to_sql(ops, **kw)

    def run_sql(self, sql):
        import pandas

        return pandas.read_sql_query(sql, self.conn)

    def run(self, ops, frames, **kw):
        self.load(frames)
        return self.run_sql(self.to_sql(ops, **kw))

    def close(self):
        self.conn.close()


# ---------------------------------------------------------------- Polars
def to_polars(frame, lazy=False):
    import polars as pl

    d = pl.from_pandas(frame) if frame.shape[1] > 0 else pl.DataFrame({})
    return d.lazy() if lazy else d


_EAGER_MODEL = []


def run_polars(ops, frames, lazy=False, eager_model=False):
    """lazy: present LazyFrame inputs; eager_model: evaluate with PolarsModel(use_lazy_eval=False)"""
    import polars as pl

    data = {k: to_polars(v, lazy) for k, v in frames.items()}
    if eager_model:
        if not _EAGER_MODEL:
            import data_algebra.polars_model as pm

            _EAGER_MODEL.append(pm.PolarsModel(use_lazy_eval=False))
        res = ops.eval(data, data_model=_EAGER_MODEL[0])
    else:
        res = ops.eval(data)
    if isinstance(res, pl.LazyFrame):
        res = res.collect()
    return res
