"""Record specifications (cdata), conforming data and the reference pivot / unpivot on lists of dicts.

A spec (JSON-able): {"record_keys": [...], "control_table_keys": [...], "control_table": {"cols": [...], "rows": [[...]]}}
with distinct content names.  Row-record form: record_keys + content names.  Block form: record_keys + control columns.
"""


def gen_spec(rng, tag="", content=None, n_record_keys=None):
    """random strict spec; content = list of content names to arrange (default: fresh names)"""
    nrk = rng.choice([0, 1, 1, 2]) if n_record_keys is None else n_record_keys
    record_keys = ["id", "grp"][:nrk]
    nck = rng.choice([1, 1, 2])
    nval = rng.choice([1, 2, 3])
    if content is not None:
        # arrange the given content names: choose a (rows x value columns) shape that fits exactly
        n = len(content)
        shapes = [(r, n // r) for r in range(2, n + 1) if n % r == 0]
        if not shapes:
            return None
        nrows, nval = rng.choice(shapes)
        nck = 1 if rng.random() < 0.6 else 2
    else:
        nrows = rng.choice([2, 2, 3, 4])
    ck_names = [f"k{tag}{i}" for i in range(nck)]
    # key tuples: distinct
    pool = [(a, b) for a in ["x", "y", "z", "w"] for b in ["p", "q", "r"]]
    rng.shuffle(pool)
    keys = []
    if nck == 1 or nrows > len(pool):
        nck = 1
        ck_names = ck_names[:1]
        vals = [f"key{i}" for i in range(nrows)]
        rng.shuffle(vals)
        keys = [(v,) for v in vals]
    else:
        keys = pool[:nrows]
    val_cols = [f"val{tag}{j}" for j in range(nval)]
    names = list(content) if content is not None else None
    if names is not None:
        rng.shuffle(names)
    rows = []
    c = 0
    for i in range(nrows):
        r = list(keys[i])
        for j in range(nval):
            if names is not None:
                r.append(names[c])
            else:
                r.append(f"c{tag}_{i}_{j}")
            c += 1
        rows.append(r)
    return {"record_keys": record_keys, "control_table_keys": ck_names,
            "control_table": {"cols": ck_names + val_cols, "rows": rows}, "strict": True}


def content_names(spec):
    nk = len(spec["control_table_keys"])
    return [v for r in spec["control_table"]["rows"] for v in r[nk:]]


def row_columns(spec):
    return list(spec["record_keys"]) + content_names(spec)


def block_columns(spec):
    return list(spec["record_keys"]) + list(spec["control_table"]["cols"])


def gen_rowrecs(rng, spec, max_records=6, null_p=0.2):
    """list of dict rows in row-record form with unique record keys"""
    rk = spec["record_keys"]
    names = content_names(spec)
    n = rng.randint(0, max_records) if rk else 1
    seen = set()
    out = []
    # with two record keys the leading one alone need not identify a record (then it is drawn from a small range)
    shared_lead = len(rk) >= 2 and rng.random() < 0.5
    for i in range(n):
        key = tuple(((rng.choice([0, 1, 2]) if shared_lead else i) if k == "id" else rng.choice(["g1", "g2", "g3"])) for k in rk)
        if key in seen:
            continue
        seen.add(key)
        row = dict(zip(rk, key))
        for c in names:
            row[c] = None if rng.random() < null_p else rng.choice([1.0, 2.5, -3.0, 0.0, 10.0, 7.25])
        out.append(row)
    return out


def ref_unpivot(rows, spec):
    """row records -> block records"""
    ct = spec["control_table"]
    nk = len(spec["control_table_keys"])
    out = []
    for r in rows:
        for cr in ct["rows"]:
            o = {k: r[k] for k in spec["record_keys"]}
            for j, c in enumerate(ct["cols"]):
                if j < nk:
                    o[c] = cr[j]
                else:
                    o[c] = r.get(cr[j])
            out.append(o)
    return out


def ref_pivot(rows, spec):
    """block records -> row records (a record = the rows sharing the record key values; missing block rows -> nulls)"""
    ct = spec["control_table"]
    nk = len(spec["control_table_keys"])
    recs = {}
    order = []
    for r in rows:
        key = tuple(r[k] for k in spec["record_keys"])
        if key not in recs:
            recs[key] = {k: r[k] for k in spec["record_keys"]}
            for n in content_names(spec):
                recs[key][n] = None
            order.append(key)
        for cr in ct["rows"]:
            if all(r[ct["cols"][j]] == cr[j] for j in range(nk)):
                for j in range(nk, len(ct["cols"])):
                    recs[key][cr[j]] = r[ct["cols"][j]]
    return [recs[k] for k in order]


def to_frame(rows, columns):
    import pandas

    return pandas.DataFrame({c: [r.get(c) for r in rows] for c in columns}, columns=columns)
