"""Printer/parser-hostile expression trees and strings (shared by C11, C12, C14).

Trees are built as ASTs of vf.gen.core, i.e. arbitrary *shapes* (right-nested subtraction, power of a negated term,
negative constants as operands, comparisons inside arithmetic, ...), so the printer has to decide about every pair
of parentheses itself.
"""

HOSTILE_STRINGS = [
    "it's", 'say "hi"', "both ' and \"", "back\\slash", "C:\\data", "trail\\", "new\nline", "tab\there", "cr\rx",
    "ünï cödé", "日本語", "emoji 😀", "", " lead", "trail ", "%s %d", "{} {0}", "semi;colon", "-- dash", "/* c */",
    "a,b", "[x]", "(p)", "$tag$", "#hash", "NULL", "None", "True", "1e3", "\\n literal",
]

NUM_LITS = [0, 1, 2, 3, -1, -2, -3, 0.5, -0.5, 2.5, -7.75, 1e-3, 1e6, 10, 100.0, -0.125]


def num_expr(rng, numcols, d=0, maxd=3):
    """numeric expression AST over numcols"""
    if d >= maxd or rng.random() < 0.2:
        if numcols and rng.random() < 0.65:
            return ["col", rng.choice(numcols)]
        return ["lit", rng.choice(NUM_LITS)]
    r = rng.random()
    if r < 0.40:
        op = rng.choice(["+", "-", "*", "/", "-", "/", "+", "*", "//", "%"])
        return ["bin", op, num_expr(rng, numcols, d + 1, maxd), num_expr(rng, numcols, d + 1, maxd)]
    if r < 0.52:
        # powers: of negated terms, of negative constants, nested powers (right/left)
        base = rng.choice([
            lambda: ["neg", num_expr(rng, numcols, d + 1, maxd)],
            lambda: ["lit", rng.choice([-3, -2, -0.5, 2, 3])],
            lambda: ["bin", "**", num_expr(rng, numcols, d + 2, maxd), ["lit", 2]],
            lambda: num_expr(rng, numcols, d + 1, maxd),
        ])()
        exp = rng.choice([["lit", 2], ["lit", 3], ["lit", -1], ["lit", 0.5], ["neg", ["lit", 1]],
                          ["bin", "**", ["lit", 2], ["lit", 2]]])
        return ["bin", "**", base, exp]
    if r < 0.64:
        e = num_expr(rng, numcols, d + 1, maxd)
        return ["neg", ["neg", e]] if rng.random() < 0.35 else ["neg", e]
    if r < 0.74:
        m = rng.choice(["abs", "sin", "cos", "exp", "floor", "ceil", "sign", "sqrt", "log", "round"])
        return ["m", m, num_expr(rng, numcols, d + 1, maxd), []]
    if r < 0.82:
        m = rng.choice(["maximum", "minimum", "fmax", "fmin"])
        return ["m", m, num_expr(rng, numcols, d + 1, maxd), [num_expr(rng, numcols, d + 1, maxd)]]
    if r < 0.88:
        return ["bin", rng.choice(["%?%", "%/%"]), num_expr(rng, numcols, d + 1, maxd), num_expr(rng, numcols, d + 1, maxd)]
    if r < 0.92:
        return ["m", "coalesce", num_expr(rng, numcols, d + 1, maxd), [["lit", rng.choice(NUM_LITS)]]]
    c = bool_expr(rng, numcols, d + 1, maxd)
    return ["m", rng.choice(["if_else", "where"]), c, [num_expr(rng, numcols, d + 1, maxd), num_expr(rng, numcols, d + 1, maxd)]]


def bool_expr(rng, numcols, d=0, maxd=3):
    r = rng.random()
    if d >= maxd or r < 0.5:
        return ["bin", rng.choice(["<", "<=", ">", ">=", "==", "!="]), num_expr(rng, numcols, d + 1, maxd),
                num_expr(rng, numcols, d + 1, maxd)]
    if r < 0.8:
        return ["bin", rng.choice(["and", "or"]), bool_expr(rng, numcols, d + 1, maxd), bool_expr(rng, numcols, d + 1, maxd)]
    if r < 0.9:
        return ["not", bool_expr(rng, numcols, d + 1, maxd)]
    if numcols:
        c = rng.choice(numcols)
        vals = rng.sample([-1, 0, 1, 2, 3, 2.5], rng.randint(1, 3))
        return ["m", "is_in", ["col", c], [[rng.choice(["list", "set"]), vals]]]
    return ["bin", "==", ["lit", 1], ["lit", 1]]


def str_expr(rng, strcols, d=0, maxd=2):
    if d >= maxd or rng.random() < 0.35 or not strcols:
        if strcols and rng.random() < 0.5:
            return ["col", rng.choice(strcols)]
        return ["lit", rng.choice(HOSTILE_STRINGS)]
    r = rng.random()
    if r < 0.4:
        return ["bin", "%+%", str_expr(rng, strcols, d + 1, maxd), str_expr(rng, strcols, d + 1, maxd)]
    if r < 0.55:
        return ["m", "concat", str_expr(rng, strcols, d + 1, maxd), [str_expr(rng, strcols, d + 1, maxd)]]
    if r < 0.7:
        return ["m", "coalesce", ["col", rng.choice(strcols)], [["lit", rng.choice(HOSTILE_STRINGS)]]]
    if r < 0.85:
        keys = rng.sample(["a", "b", "c", "d"] + HOSTILE_STRINGS[:6], rng.randint(1, 3))
        d_ = [[k, rng.choice(HOSTILE_STRINGS)] for k in keys]
        args = [["dict", d_]]
        if rng.random() < 0.6:
            args.append(["lit", rng.choice(HOSTILE_STRINGS)])
        return ["m", "mapv", ["col", rng.choice(strcols)], args]
    return ["m", "if_else", ["bin", rng.choice(["==", "!="]), ["col", rng.choice(strcols)], ["lit", rng.choice(HOSTILE_STRINGS)]],
            [["lit", rng.choice(HOSTILE_STRINGS)], ["lit", rng.choice(HOSTILE_STRINGS)]]]


def str_pred(rng, strcols):
    c = rng.choice(strcols)
    r = rng.random()
    if r < 0.5:
        return ["bin", rng.choice(["==", "!="]), ["col", c], ["lit", rng.choice(HOSTILE_STRINGS + ["a", "b"])]]
    vals = rng.sample(HOSTILE_STRINGS + ["a", "b", "c"], rng.randint(1, 3))
    return ["m", "is_in", ["col", c], [[rng.choice(["list", "set"]), vals]]]
