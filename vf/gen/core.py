"""Tables and expression ASTs (JSON-able), their rendering to DSL text / Term objects.

Expression AST forms (lists, so they survive JSON):
  ["col", name]                    ["lit", value]
  ["bin", op, a, b]                ["neg", a]        ["not", a]
  ["m", method, receiver, [args]]  method call; args are ASTs, ["list",[py values]] or ["dict",{..}] or ["raw", text]
  ["f", name, [args]]              function-call form, e.g. _row_number()
Kinds: 'i' int, 'f' float, 's' str, 'b' bool.
"""
import math
import re

IDENT = re.compile(r"^[A-Za-z_][A-Za-z0-9_]*$")
PY_KEYWORDS = {"and", "or", "not", "in", "is", "if", "else", "for", "while", "def", "class", "lambda", "None", "True",
               "False", "from", "import", "as", "with", "try", "del", "pass", "return", "yield", "global", "assert",
               "raise", "except", "finally", "break", "continue", "nonlocal", "elif", "await", "async"}


def is_plain_name(n):
    return bool(IDENT.match(n)) and n not in PY_KEYWORDS


# ------------------------------------------------------------------ tables
def make_frame(cols, rows):
    """cols: [(name, kind)], rows: list of lists (None = null) -> pandas frame with the dtypes a user would get"""
    import pandas

    data = {}
    for j, (c, k) in enumerate(cols):
        vals = [r[j] for r in rows]
        hasnull = any(v is None for v in vals)
        if k == "i":
            if hasnull:
                data[c] = pandas.Series([float("nan") if v is None else float(v) for v in vals], dtype="float64")
            else:
                data[c] = pandas.Series(vals, dtype="int64")
        elif k == "f":
            data[c] = pandas.Series([float("nan") if v is None else float(v) for v in vals], dtype="float64")
        elif k == "b":
            data[c] = pandas.Series(vals, dtype="bool") if not hasnull else pandas.Series(vals, dtype="object")
        else:
            data[c] = pandas.Series(vals, dtype="object") if len(vals) == 0 else pandas.Series(vals)
            if len(vals) and all(v is None for v in vals):
                data[c] = pandas.Series(vals, dtype="object")
    return pandas.DataFrame(data, columns=[c for c, _ in cols])


FLOAT_POOL = [0.0, 1.0, -1.0, 0.5, -0.5, 2.5, 1e-3, 1e6, 3.25, -7.75, 10.0, 0.125]
STR_POOL = ["a", "b", "c", "d"]


def gen_value(rng, kind, small=True):
    if kind == "i":
        return rng.randint(-2, 4) if small else rng.randint(-50, 50)
    if kind == "f":
        return rng.choice(FLOAT_POOL)
    if kind == "b":
        return rng.random() < 0.5
    return rng.choice(STR_POOL[: rng.randint(2, 4)])


def gen_table(rng, name, max_rows=8, max_cols=6, null_ps=(0, 0, 0.2, 0.6), uid=True, classes=None):
    """returns table dict {"name","cols":[[name,kind]],"rows":[[...]], "tags":[...]}"""
    ncols = rng.randint(2, max_cols)
    kinds = []
    # at least one key-like str and one numeric
    kinds.append("s")
    kinds.append(rng.choice(["i", "f"]))
    while len(kinds) < ncols:
        kinds.append(rng.choice(["i", "i", "f", "f", "s", "b"]))
    rng.shuffle(kinds)
    names = []
    counters = {"i": 0, "f": 0, "s": 0, "b": 0}
    pref = {"i": "n", "f": "x", "s": "g", "b": "q"}
    for k in kinds:
        names.append(pref[k] + str(counters[k]))
        counters[k] += 1
    r = rng.random()
    tags = []
    if r < 0.08:
        nrows = 0
        tags.append("empty")
    elif r < 0.16:
        nrows = 1
        tags.append("single-row")
    else:
        nrows = rng.randint(2, max_rows)
    nullp = []
    for k in kinds:
        p = rng.choice(null_ps) if k != "b" else 0
        nullp.append(p)
    rows = []
    for i in range(nrows):
        rows.append([None if rng.random() < nullp[j] else gen_value(rng, kinds[j]) for j in range(ncols)])
    if nrows >= 2 and rng.random() < 0.12:
        rows[1] = list(rows[0])
        tags.append("duplicate-row")
    if any(p >= 0.6 for p in nullp):
        tags.append("heavy-null")
    if any(p > 0 for p in nullp):
        tags.append("nulls")
    cols = [[n, k] for n, k in zip(names, kinds)]
    if uid:
        cols.append(["uid", "i"])
        order = list(range(nrows))
        rng.shuffle(order)
        for i, r_ in enumerate(rows):
            r_.append(order[i])
    return {"name": name, "cols": cols, "rows": rows, "tags": tags}


def table_frame(t):
    return make_frame([tuple(c) for c in t["cols"]], t["rows"])


# ------------------------------------------------------------------ expression rendering
INLINE = {"+", "-", "*", "/", "//", "%", "**", "==", "!=", "<", "<=", ">", ">=", "and", "or", "%+%", "%?%", "%/%"}


def render(e, nm=None):
    """AST -> DSL text (fully parenthesised); nm maps logical column names to actual names"""
    t = e[0]
    if t == "col":
        n = e[1] if nm is None else nm.get(e[1], e[1])
        if not is_plain_name(n):
            raise ValueError("name not expressible as text: %r" % n)
        return n
    if t == "lit":
        v = e[1]
        if isinstance(v, float) and (math.isinf(v) or math.isnan(v)):
            raise ValueError("non-finite literal")
        if isinstance(v, (int, float)) and not isinstance(v, bool) and v < 0:
            return "(" + repr(v) + ")"
        return repr(v)
    if t == "rawexpr":
        return e[1]
    if t == "bin":
        return "(" + render(e[2], nm) + " " + e[1] + " " + render(e[3], nm) + ")"
    if t == "neg":
        return "(-" + render(e[1], nm) + ")"
    if t == "not":
        return "(not " + render(e[1], nm) + ")"
    if t == "m":
        recv = render(e[2], nm)
        if e[2][0] == "lit":
            recv = "(" + recv + ")"
        return recv + "." + e[1] + "(" + ", ".join(render_arg(a, nm) for a in e[3]) + ")"
    if t == "f":
        return e[1] + "(" + ", ".join(render_arg(a, nm) for a in e[2]) + ")"
    raise ValueError("bad expr node %r" % (e,))


def render_arg(a, nm):
    if a[0] == "list":
        return "[" + ", ".join(repr(v) for v in a[1]) + "]"
    if a[0] == "set":
        return "{" + ", ".join(repr(v) for v in a[1]) + "}"
    if a[0] == "dict":
        return "{" + ", ".join(repr(k) + ": " + repr(v) for k, v in a[1]) + "}"
    if a[0] == "raw":
        return a[1]
    return render(a, nm)


HOLD_HOOK = None  # set by vf.build: records caller-side containers handed to Term constructors


TERM_MEMO = None  # when a dict (set by vf.build for one build): the same AST object yields the same Term object


def to_term(e, nm=None):
    """AST -> data_algebra Term built through col()/lit() and operators (bypasses the parser)"""
    if TERM_MEMO is not None and e[0] in ("bin", "m", "neg", "not"):
        hit = TERM_MEMO.get(id(e))
        if hit is not None:
            return hit
        r = _to_term(e, nm)
        TERM_MEMO[id(e)] = r
        return r
    return _to_term(e, nm)


def _to_term(e, nm=None):
    import data_algebra.expr_rep as er

    t = e[0]
    if t == "col":
        return er.ColumnReference(e[1] if nm is None else nm.get(e[1], e[1]))
    if t == "lit":
        return er.Value(e[1])
    if t == "bin":
        a = to_term(e[2], nm)
        c = to_term(e[3], nm)
        op = e[1]
        if op in ("and", "or"):
            return er.kop_expr(op, [a, c], inline=True, method=False)
        if op == "%+%":
            return a.concat(c)
        if op == "%?%":
            return a.coalesce(c)
        if op == "%/%":
            return a.float_divide(c)
        import operator as o

        f = {"+": o.add, "-": o.sub, "*": o.mul, "/": o.truediv, "//": o.floordiv, "%": o.mod, "**": o.pow,
             "==": o.eq, "!=": o.ne, "<": o.lt, "<=": o.le, ">": o.gt, ">=": o.ge}[op]
        return f(a, c)
    if t == "neg":
        return -to_term(e[1], nm)
    if t == "not":
        return to_term(e[1], nm) == er.Value(False)
    if t == "m":
        recv = to_term(e[2], nm)
        if e[1] == "mapv":
            d = {k: v for k, v in e[3][0][1]}
            if HOLD_HOOK is not None:
                HOLD_HOOK(d)  # the caller's own dict object, handed to DictTerm
            args = [er.DictTerm(d)] + [er.Value(a[1]) for a in e[3][1:]]
            return recv.mapv(*args)
        if e[1] in ("if_else", "where", "coalesce", "concat", "maximum", "minimum", "fmax", "fmin"):
            args = [to_term(a, nm) for a in e[3]]
            return getattr(recv, e[1])(*args)
        args = [py_arg(a, nm) for a in e[3]]
        return getattr(recv, e[1])(*args)
    if t == "f":
        return er.Expression(op=e[1], args=[py_arg(a, nm) for a in e[2]])
    raise ValueError("bad expr node %r" % (e,))


def py_arg(a, nm):
    if a[0] in ("list", "set"):
        # Term objects carry collections as lists of Value objects (what the parser builds; a list of raw Python
        # values is refused by the builder: ListTerm.get_column_names)
        import data_algebra.expr_rep as er

        return [er.Value(v) for v in a[1]]
    if a[0] == "dict":
        return {k: v for k, v in a[1]}
    if a[0] == "lit":
        import data_algebra.expr_rep as er

        return er.Value(a[1])
    if a[0] == "raw":
        return eval(a[1])
    return to_term(a, nm)


def expr_cols(e, out=None):
    if out is None:
        out = set()
    t = e[0]
    if t == "col":
        out.add(e[1])
    elif t == "bin":
        expr_cols(e[2], out)
        expr_cols(e[3], out)
    elif t in ("neg", "not"):
        expr_cols(e[1], out)
    elif t == "m":
        expr_cols(e[2], out)
        for a in e[3]:
            if a[0] not in ("list", "set", "dict", "raw"):
                expr_cols(a, out)
    elif t == "f":
        for a in e[2]:
            if a[0] not in ("list", "set", "dict", "raw"):
                expr_cols(a, out)
    return out


def expr_methods(e, out=None):
    if out is None:
        out = []
    t = e[0]
    if t == "bin":
        out.append(e[1])
        expr_methods(e[2], out)
        expr_methods(e[3], out)
    elif t in ("neg", "not"):
        out.append(t)
        expr_methods(e[1], out)
    elif t == "m":
        out.append(e[1])
        expr_methods(e[2], out)
        for a in e[3]:
            if a[0] not in ("list", "set", "dict", "raw"):
                expr_methods(a, out)
    elif t == "f":
        out.append(e[1])
    return out


def expr_depth(e):
    t = e[0]
    if t in ("col", "lit"):
        return 0
    if t == "bin":
        return 1 + max(expr_depth(e[2]), expr_depth(e[3]))
    if t in ("neg", "not"):
        return 1 + expr_depth(e[1])
    if t == "m":
        return 1 + max([expr_depth(e[2])] + [expr_depth(a) for a in e[3] if a[0] not in ("list", "set", "dict", "raw")])
    return 1


def rename_expr(e, rho):
    """apply a column renaming to an AST (structure preserved)"""
    t = e[0]
    if t == "col":
        return ["col", rho.get(e[1], e[1])]
    if t == "lit":
        return e
    if t == "bin":
        return ["bin", e[1], rename_expr(e[2], rho), rename_expr(e[3], rho)]
    if t in ("neg", "not"):
        return [t, rename_expr(e[1], rho)]
    if t == "m":
        return ["m", e[1], rename_expr(e[2], rho),
                [a if a[0] in ("list", "set", "dict", "raw") else rename_expr(a, rho) for a in e[3]]]
    if t == "f":
        return ["f", e[1], [a if a[0] in ("list", "set", "dict", "raw") else rename_expr(a, rho) for a in e[2]]]
    return e
