"""Data-aware random pipeline (recipe) generator.

The prefix built so far is materialised on Pandas, so the next step is drawn well-typed and
non-degenerate, and *hazards* (the triggers of recorded divergences: null operands of comparisons,
nulls in order/group/join keys, ...) can be avoided or admitted exactly, per the `allow` set.
"""
import math

from vf.gen import core
from vf import build as B

CUR = "cur__"

HAZARDS = {
    "null_cmp",        # null operand of a comparison / logical operator / if_else / where / is_in
    "null_order",      # null in an order key (order_rows or window order_by)
    "null_group",      # null in a group_by / partition_by key
    "null_join",       # null in a join key
    "cum_null",        # cumulative window function over a column containing nulls
    "agg_allnull",     # sum over a group with no non-null value (accepted convention point)
    "float_mod",       # % / mod / remainder on floats
    "str_null",        # string concat/trim with a null operand
    "int_div",         # integer / // % (documented convention)
    "minmax_null",     # two-argument max/min with a null operand
    "limit0",          # order_rows(limit=0)
}


class Profile:
    def __init__(self, **kw):
        self.allow = set(kw.get("allow", ()))
        self.max_depth = kw.get("max_depth", 6)
        self.min_depth = kw.get("min_depth", 1)
        self.expr_depth = kw.get("expr_depth", 2)
        self.scalar_methods = kw.get("scalar_methods", None)  # None = default set
        self.agg_methods = kw.get("agg_methods", ["sum", "mean", "min", "max", "count", "size", "_size", "one_sum"])
        self.win_methods = kw.get("win_methods", ["sum", "mean", "min", "max", "count", "size", "_size"])
        self.owin_methods = kw.get("owin_methods", ["cumsum", "cummax", "cummin", "_row_number", "shift"])
        self.ops = kw.get("ops", {
            "extend": 5, "wextend": 2, "owextend": 2, "project": 2, "select_rows": 3, "select_columns": 1,
            "drop_columns": 1, "rename_columns": 1, "map_columns": 1, "order_rows": 1, "natural_join": 2,
            "concat_rows": 1, "convert_records": 1,
        })
        self.jointypes = kw.get("jointypes", ["inner", "left", "right", "full", "cross"])
        self.final_order_p = kw.get("final_order_p", 0.25)
        self.max_join_rows = kw.get("max_join_rows", 60)
        self.use_uid = kw.get("use_uid", True)
        self.self_join_p = kw.get("self_join_p", 0.15)
        self.pair_keys_p = kw.get("pair_keys_p", 0.0)  # probability that a join uses differently named key columns
        self.null_tests = kw.get("null_tests", ["is_null", "is_bad"])


class St:
    """materialised prefix"""

    def __init__(self, node, frame, kinds):
        self.node = node
        self.frame = frame
        self.kinds = dict(kinds)

    def cols(self, kinds=None):
        return [c for c in self.frame.columns if kinds is None or self.kinds.get(c) in kinds]

    def has_null(self, c):
        return bool(self.frame[c].isnull().any())

    def nrows(self):
        return self.frame.shape[0]


# ---- exactness (which columns / expressions can differ in the last bit between two engines)
INEXACT_FNS = {"sin", "cos", "tanh", "exp", "log", "sqrt", "expm1", "log1p", "arctan", "sinh", "cosh",
               "sum", "mean", "std", "var", "median", "cumsum", "cumprod"}


def expr_inexact(e, tainted):
    """True if the value of the expression may differ in its last bit between two engines: it calls a transcendental
    function or a float aggregate (summation order), or reads a column that does"""
    t = e[0]
    if t == "col":
        return e[1] in tainted
    if t in ("lit", "rawexpr"):
        return False
    if t == "bin":
        return expr_inexact(e[2], tainted) or expr_inexact(e[3], tainted)
    if t in ("neg", "not"):
        return expr_inexact(e[1], tainted)
    if t == "m":
        if e[1] in INEXACT_FNS:
            return True
        return expr_inexact(e[2], tainted) or any(expr_inexact(a, tainted) for a in e[3] if a[0] not in ("list", "set", "dict", "raw"))
    if t == "f":
        return e[1] in INEXACT_FNS
    return True


def tainted_columns(node, memo=None):
    """columns of the recipe node's result whose values may differ in the last bit between engines"""
    if memo is None:
        memo = {}
    if id(node) in memo:
        return memo[id(node)]
    op = node["op"]
    if op == "table":
        r = set()
    else:
        src = tainted_columns(node["src"], memo)
        if op in ("extend", "project"):
            r = set(src) if op == "extend" else {c for c in src if c in (node.get("group_by") or [])}
            for tgt, e in node["ops"]:
                if expr_inexact(e, src):
                    r.add(tgt)
                else:
                    r.discard(tgt)
        elif op == "rename_columns":
            mp = {old: new for new, old in node["map"]}
            r = {mp.get(c, c) for c in src}
        elif op == "map_columns":
            mp = {old: new for old, new in node["map"]}
            r = {mp.get(c, c) for c in src if mp.get(c, c) is not None}
        elif op in ("natural_join", "concat_rows"):
            r = set(src) | tainted_columns(node["right"], memo)
        elif op == "convert_records":
            r = {"*"} if src else set()
        else:
            r = set(src)
    memo[id(node)] = r
    return r


def frame_kinds_ok(frame, kinds):
    return set(frame.columns) == set(kinds)


class Gen:
    def __init__(self, rng, tables, profile, counters=None):
        self.rng = rng
        self.tables = tables  # list of table dicts
        self.p = profile
        self.frames = {t["name"]: core.table_frame(t) for t in tables}
        self.kinds = {t["name"]: {c: k for c, k in t["cols"]} for t in tables}
        self.fresh = 0
        self.log = counters if counters is not None else {}
        self.hazards_used = set()

    # --------------------------------------------------------------- helpers
    def cnt(self, k):
        self.log[k] = self.log.get(k, 0) + 1

    def newcol(self, st, prefix="v"):
        while True:
            self.fresh += 1
            n = "%s%d" % (prefix, self.fresh)
            if n not in st.frame.columns:
                return n

    def table_state(self, name=None):
        t = self.rng.choice(self.tables) if name is None else [x for x in self.tables if x["name"] == name][0]
        node = {"op": "table", "name": t["name"], "cols": [c for c, _ in t["cols"]]}
        return St(node, self.frames[t["name"]].copy(), self.kinds[t["name"]])

    def apply(self, st, step, right=None):
        """evaluate one step over the materialised prefix; returns new frame or raises"""
        import data_algebra  # noqa

        tnode = {"op": "table", "name": CUR, "cols": list(st.frame.columns)}
        n = dict(step)
        n["src"] = tnode
        data = {CUR: st.frame}
        if right is not None:
            rnode = {"op": "table", "name": CUR + "r", "cols": list(right.frame.columns)}
            n["right"] = rnode
            data[CUR + "r"] = right.frame
        ops = B.build(n)
        res = ops.eval(data)
        if set(res.columns) != set(ops.column_names):
            raise ValueError("generator: result columns differ from declared")
        return res

    # --------------------------------------------------------------- expressions
    def lit(self, kind):
        return ["lit", core.gen_value(self.rng, kind)]

    def nonnull_cols(self, st, kinds):
        return [c for c in st.cols(kinds) if not st.has_null(c)]

    def num(self, st, d=0, want=None, nonnull=False):
        """numeric expression -> (ast, kind); nonnull=True draws only from null-free columns"""
        rng = self.rng
        kinds = ("i", "f") if want is None else (want,)
        cols = self.nonnull_cols(st, kinds) if nonnull else st.cols(kinds)
        if d >= self.p.expr_depth or rng.random() < 0.3:
            if cols and rng.random() < 0.8:
                c = rng.choice(cols)
                return ["col", c], st.kinds[c]
            k = want or rng.choice(["i", "f"])
            return self.lit(k), k
        r = rng.random()
        if r < 0.45:
            op = rng.choice(["+", "-", "*"])
            a, ka = self.num(st, d + 1, want, nonnull)
            b, kb = self.num(st, d + 1, want, nonnull)
            return ["bin", op, a, b], ("i" if ka == "i" and kb == "i" else "f")
        if want == "i":
            a, ka = self.num(st, d + 1, "i", nonnull)
            m = rng.choice(["abs", "neg", "sign"])
            if m == "neg":
                return ["neg", a], "i"
            return ["m", m, a, []], "i"
        if r < 0.55:
            # float division with a divisor bounded away from 0
            a, ka = self.num(st, d + 1, None, nonnull)
            b, kb = self.num(st, d + 1, None, nonnull)
            den = ["bin", "+", ["m", "abs", b, []], ["lit", 1.5]]
            return ["bin", rng.choice(["/", "%/%"]), a, den], "f"
        if r < 0.8:
            a, ka = self.num(st, d + 1, None, nonnull)
            m = rng.choice(["abs", "neg", "sign", "floor", "ceil", "sin", "cos", "tanh", "sqrt_abs", "log_abs", "exp_b"])
            if m in ("sign", "floor", "ceil"):
                # a step function of a value two engines compute with different last bits is ill-conditioned
                # (floor(tanh(19)) is 1 in numpy and 0 in SQLite's libm): only over exactly computed arguments
                tt = tainted_columns(st.node)
                if "*" in tt or expr_inexact(a, tt):
                    self.cnt("step_function_over_inexact_argument_avoided")
                    m = "abs"
            if m == "neg":
                return ["neg", a], ka
            if m in ("abs", "sign"):
                return ["m", m, a, []], ka
            if m == "sqrt_abs":
                return ["m", "sqrt", ["m", "abs", a, []], []], "f"
            if m == "log_abs":
                return ["m", "log", ["bin", "+", ["m", "abs", a, []], ["lit", 1.0]], []], "f"
            if m == "exp_b":
                return ["m", "exp", ["m", "tanh", a, []], []], "f"
            return ["m", m, a, []], "f"
        if r < 0.9:
            a, ka = self.num(st, d + 1, None, nonnull or ("minmax_null" not in self.p.allow))
            b, kb = self.num(st, d + 1, None, nonnull or ("minmax_null" not in self.p.allow))
            m = rng.choice(["maximum", "minimum", "fmax", "fmin"])
            return ["m", m, a, [b]], ("i" if ka == "i" and kb == "i" else "f")
        if r < 0.935:
            scols = self.nonnull_cols(st, ("s",))
            if scols:
                # a lookup table: string column -> number, with a default for unlisted values
                keys = rng.sample(core.STR_POOL, rng.randint(1, min(3, len(core.STR_POOL))))
                items = [[k, rng.choice([1.0, 2.5, -3.0, 10.0, 0.5])] for k in keys]
                self.cnt("expr:mapv")
                return ["m", "mapv", ["col", rng.choice(scols)], [["dict", items], ["lit", rng.choice([0.0, -1.0, 99.0])]]], "f"
        if r < 0.965 and not nonnull:
            a, ka = self.num(st, d + 1, None, False)
            k = ka
            return ["m", "coalesce", a, [self.lit(k)]], k
        c, _ = self.boolean(st, d + 1)
        a, ka = self.num(st, d + 1, "f", nonnull)
        b, kb = self.num(st, d + 1, "f", nonnull)
        return ["m", rng.choice(["if_else", "where"]), c, [a, b]], "f"

    def string(self, st, d=0, nonnull=False):
        rng = self.rng
        cols = self.nonnull_cols(st, ("s",)) if nonnull else st.cols(("s",))
        if d >= self.p.expr_depth or rng.random() < 0.5 or not cols:
            if cols and rng.random() < 0.85:
                return ["col", rng.choice(cols)], "s"
            return ["lit", rng.choice(core.STR_POOL + ["z", "q r"])], "s"
        r = rng.random()
        nn = nonnull or ("str_null" not in self.p.allow)
        if r < 0.5:
            a, _ = self.string(st, d + 1, nn)
            b, _ = self.string(st, d + 1, nn)
            if a[0] == "lit" and b[0] == "lit":
                return a, "s"
            if rng.random() < 0.5:
                return ["bin", "%+%", a, b], "s"
            return ["m", "concat", a, [b]], "s"
        if r < 0.7 and not nonnull:
            a, _ = self.string(st, d + 1, False)
            if a[0] == "lit":
                return a, "s"
            return ["m", "coalesce", a, [["lit", "zz"]]], "s"
        c, _ = self.boolean(st, d + 1)
        return ["m", "if_else", c, [["lit", rng.choice(["u", "v"])], ["lit", "w"]]], "s"

    def boolean(self, st, d=0):
        rng = self.rng
        nn = "null_cmp" not in self.p.allow
        r = rng.random()
        bcols = st.cols(("b",))
        if d >= self.p.expr_depth + 1:
            r = rng.random() * 0.6
        if r < 0.4:
            a, ka = self.num(st, d + 1, None, nn)
            b, kb = self.num(st, d + 1, None, nn)
            if a[0] == "lit" and b[0] == "lit":
                b = ["bin", "+", b, ["lit", 1]]
                cols = self.nonnull_cols(st, ("i", "f")) if nn else st.cols(("i", "f"))
                if cols:
                    a = ["col", rng.choice(cols)]
            op = rng.choice(["<", "<=", ">", ">=", "==", "!="])
            if op in ("==", "!=") and (ka == "f" or kb == "f") and rng.random() < 0.7:
                op = rng.choice(["<", ">="])
            return ["bin", op, a, b], "b"
        if r < 0.5:
            scols = self.nonnull_cols(st, ("s",)) if nn else st.cols(("s",))
            if scols:
                c = rng.choice(scols)
                if rng.random() < 0.5:
                    return ["bin", rng.choice(["==", "!="]), ["col", c], ["lit", rng.choice(core.STR_POOL)]], "b"
                return ["m", "is_in", ["col", c], [["list", rng.sample(core.STR_POOL, rng.randint(1, 3))]]], "b"
        if r < 0.58:
            cols = st.cols(("i", "f", "s"))
            if cols:
                c = rng.choice(cols)
                m = "is_null" if st.kinds[c] == "s" else rng.choice(getattr(self.p, "null_tests", ["is_null", "is_bad"]))
                return ["m", m, ["col", c], []], "b"
        if r < 0.64 and bcols:
            return ["col", rng.choice(bcols)], "b"
        if r < 0.7:
            icols = self.nonnull_cols(st, ("i",)) if nn else st.cols(("i",))
            if icols:
                return ["m", "is_in", ["col", rng.choice(icols)], [["list", rng.sample([-1, 0, 1, 2, 3], rng.randint(1, 3))]]], "b"
        if r < 0.9:
            a, _ = self.boolean(st, d + 1)
            b, _ = self.boolean(st, d + 1)
            return ["bin", rng.choice(["and", "or"]), a, b], "b"
        a, _ = self.boolean(st, d + 1)
        if a[0] == "col" or a[0] == "m":
            return ["not", a], "b"
        return a, "b"

    def any_expr(self, st):
        r = self.rng.random()
        if r < 0.6:
            return self.num(st)
        if r < 0.8:
            return self.boolean(st)
        return self.string(st)

    # --------------------------------------------------------------- steps
    def step_extend(self, st):
        rng = self.rng
        n = rng.choice([1, 1, 2, 3])
        ops = []
        targets = set()
        kinds = dict(st.kinds)
        for _ in range(n):
            e, k = self.any_expr(st)
            if e[0] == "col" and rng.random() < 0.7:
                e = ["bin", "+", e, ["lit", 1]] if k in ("i", "f") else e
            used = core.expr_cols(e)
            if rng.random() < 0.3:
                cand = [c for c in st.frame.columns if c != "uid" and c not in targets]
                if not cand:
                    continue
                tgt = rng.choice(cand)
            else:
                tgt = self.newcol(st)
            ops.append([tgt, e])
            targets.add(tgt)
            kinds[tgt] = k
        # a column may not be both produced and used in the same extend (except by itself)
        ok = []
        for tgt, e in ops:
            used = core.expr_cols(e) - {tgt}
            if used & (targets - {tgt}):
                continue
            ok.append([tgt, e])
        if not ok:
            return None
        # self-reference allowed only when the others do not use it
        return {"op": "extend", "ops": ok}, {t: kinds[t] for t, _ in ok}

    def agg_expr(self, st, m, numcols, allcols, bcols):
        rng = self.rng
        if m == "_size":
            return ["f", "_size", []], "i"
        if m == "one_sum":
            return ["m", "sum", ["lit", 1], []], "i"
        if m in ("size", "count"):
            if not allcols:
                return None
            return ["m", m, ["col", rng.choice(allcols)], []], "i"
        if m in ("any", "all"):
            if not bcols:
                return None
            return ["m", m, ["col", rng.choice(bcols)], []], "b"
        if m == "nunique":
            # distinct count of *computed* floats is decided by the last bit (two engines summing a group in different
            # orders give std 1.5275252316519468 and ...465: 2 distinct values or 1): drawn over integer columns only
            icols = [c for c in numcols if st.kinds[c] == "i"]
            if not icols:
                return None
            return ["m", m, ["col", rng.choice(icols)], []], "i"
        if not numcols:
            return None
        c = rng.choice(numcols)
        k = st.kinds[c]
        if m in ("mean", "std", "var", "median"):
            k = "f"
        if m == "nunique":
            k = "i"
        return ["m", m, ["col", c], []], k

    def group_ok_for_sum(self, st, col, keys):
        """True if every group has at least one non-null value of col"""
        f = st.frame
        if f.shape[0] == 0:
            return False
        if not keys:
            return bool(f[col].notnull().any())
        g = f.groupby(keys, dropna=False)[col].apply(lambda s: s.notnull().any())
        return bool(g.all())

    def group_ok_for_var(self, st, col, keys):
        """False when std / var of col over some group is ill-conditioned: the group's values are (nearly) constant
        relative to their magnitude, so the result is the rounding error of whichever algorithm computes it (Pandas:
        std([2.5e11] * 4) = 1.57e-05; exact arithmetic: 0)"""
        import numpy

        f = st.frame
        if f.shape[0] == 0:
            return True

        def ok(s):
            v = numpy.asarray(s.dropna(), dtype="float64")
            v = v[numpy.isfinite(v)]
            if v.size < 2:
                return True
            mag = float(numpy.max(numpy.abs(v)))
            sd = float(numpy.std(v))
            if sd == 0.0:
                return mag <= 1e3
            return sd >= 1e-3 * mag

        try:
            if not keys:
                return bool(ok(f[col]))
            return bool(f.groupby(keys, dropna=False)[col].apply(ok).all())
        except Exception:
            return False

    def pick_keys(self, st, maxk, hazard):
        rng = self.rng
        cand = [c for c in st.frame.columns if c != "uid" and st.kinds[c] in ("s", "i", "b")]
        if hazard not in self.p.allow:
            cand = [c for c in cand if not st.has_null(c)]
        k = rng.randint(0, min(maxk, len(cand)))
        return rng.sample(cand, k)

    def step_project(self, st):
        rng = self.rng
        keys = self.pick_keys(st, 2, "null_group")
        numcols = [c for c in st.cols(("i", "f")) if c not in keys and c != "uid"]
        allcols = [c for c in st.frame.columns if c not in keys]
        bcols = [c for c in st.cols(("b",)) if c not in keys]
        ops = []
        kinds = {k: st.kinds[k] for k in keys}
        for _ in range(rng.randint(0 if keys else 1, 3)):
            m = rng.choice(self.p.agg_methods)
            r = self.agg_expr(st, m, numcols, allcols, bcols)
            if r is None:
                continue
            e, k = r
            if m in ("sum",) and "agg_allnull" not in self.p.allow:
                if not self.group_ok_for_sum(st, e[2][1], keys):
                    continue
            if m in ("std", "var") and not self.group_ok_for_var(st, e[2][1], keys):
                self.cnt("ill_conditioned_var_avoided")
                continue
            if (m in ("sum", "count", "size", "_size", "one_sum", "nunique", "any", "all") and st.nrows() == 0 and not keys
                    and "agg_allnull" not in self.p.allow):
                # accepted convention point: sum/count over a group without a non-null value (0 vs NULL)
                continue
            tgt = self.newcol(st, "a")
            ops.append([tgt, e])
            kinds[tgt] = k
        if not ops and not keys:
            return None
        return {"op": "project", "ops": ops, "group_by": keys}, kinds

    def step_wextend(self, st):
        rng = self.rng
        keys = self.pick_keys(st, 2, "null_group")
        numcols = [c for c in st.cols(("i", "f")) if c not in keys and c != "uid"]
        allcols = [c for c in st.frame.columns if c not in keys]
        ops = []
        kinds = {}
        for _ in range(rng.randint(1, 2)):
            m = rng.choice(self.p.win_methods)
            r = self.agg_expr(st, m, numcols, allcols, [])
            if r is None:
                continue
            e, k = r
            if m == "sum" and "agg_allnull" not in self.p.allow and not self.group_ok_for_sum(st, e[2][1], keys):
                continue
            if m in ("std", "var") and not self.group_ok_for_var(st, e[2][1], keys):
                self.cnt("ill_conditioned_var_avoided")
                continue
            tgt = self.newcol(st, "w")
            ops.append([tgt, e])
            kinds[tgt] = k
        if not ops:
            return None
        return {"op": "extend", "ops": ops, "partition_by": keys if keys else 1}, kinds

    def total_order(self, st, part, maxo=3):
        """order columns that make rows unique within each partition (verified on the frame)"""
        rng = self.rng
        cand = [c for c in st.frame.columns if c not in part and st.kinds[c] in ("i", "f", "s")]
        if "null_order" not in self.p.allow:
            cand = [c for c in cand if not st.has_null(c)]
        rng.shuffle(cand)
        if "uid" in cand and rng.random() < 0.5:
            cand.remove("uid")
            cand.append("uid")
        order = []
        for c in cand:
            order.append(c)
            if len(order) > maxo:
                break
            if st.nrows() == 0 or not st.frame.duplicated(subset=list(part) + order, keep=False).any():
                return order
        return None

    def step_owextend(self, st):
        rng = self.rng
        keys = self.pick_keys(st, 2, "null_group")
        order = self.total_order(st, keys)
        if not order:
            return None
        numcols = [c for c in st.cols(("i", "f")) if c not in keys and c not in order and c != "uid"]
        if "cum_null" not in self.p.allow:
            numcols = [c for c in numcols if not st.has_null(c)]
        ops = []
        kinds = {}
        for _ in range(rng.randint(1, 2)):
            m = rng.choice(self.p.owin_methods)
            if m == "_row_number":
                e, k = ["f", "_row_number", []], "i"
            else:
                if not numcols:
                    continue
                c = rng.choice(numcols)
                if m == "shift":
                    e, k = ["m", "shift", ["col", c], []], "f"
                else:
                    e, k = ["m", m, ["col", c], []], st.kinds[c]
            tgt = self.newcol(st, "o")
            ops.append([tgt, e])
            kinds[tgt] = k
        if not ops:
            return None
        rev = [c for c in order if rng.random() < 0.35]
        return {"op": "extend", "ops": ops, "partition_by": keys if keys else 1, "order_by": order, "reverse": rev}, kinds

    def step_select_rows(self, st):
        nb = [c for c in st.cols(("b",)) if st.has_null(c)]
        if nb and self.rng.random() < 0.3:
            # a logical column that picked up missing values (outer join, concat) as the condition itself
            self.cnt("select_rows_on_nullable_logical_column")
            return {"op": "select_rows", "expr": ["col", self.rng.choice(nb)]}, {}
        e, _ = self.boolean(st)
        if not core.expr_cols(e):
            return None
        return {"op": "select_rows", "expr": e}, {}

    def step_select_columns(self, st):
        cols = list(st.frame.columns)
        if len(cols) < 2:
            return None
        k = self.rng.randint(1, len(cols) - 1)
        if self.rng.random() < 0.15:
            k = len(cols)  # keeps every column, in another order
        keep = self.rng.sample(cols, k)
        return {"op": "select_columns", "cols": keep}, {}

    def step_drop_columns(self, st):
        cols = list(st.frame.columns)
        if len(cols) < 2:
            return None
        k = self.rng.randint(1, min(2, len(cols) - 1))
        return {"op": "drop_columns", "cols": self.rng.sample(cols, k)}, {}

    def step_rename_columns(self, st):
        cols = [c for c in st.frame.columns]
        k = self.rng.randint(1, min(2, len(cols)))
        olds = self.rng.sample(cols, k)
        mp = [[self.newcol(st, "r"), o] for o in olds]
        if self.rng.random() < 0.2 and len(olds) == 2:
            mp = [[olds[1], olds[0]], [olds[0], olds[1]]]  # swap
        return {"op": "rename_columns", "map": mp}, {}

    def step_map_columns(self, st):
        cols = [c for c in st.frame.columns]
        if len(cols) < 2:
            return None
        k = self.rng.randint(1, min(2, len(cols) - 1))
        olds = self.rng.sample(cols, k)
        mp = []
        for o in olds:
            if self.rng.random() < 0.35 and len(cols) - sum(1 for x in mp if x[1] is None) > 1:
                mp.append([o, None])
            else:
                mp.append([o, self.newcol(st, "m")])
        if all(x[1] is None for x in mp) and len(mp) >= len(cols):
            return None
        dels = [x[0] for x in mp if x[1] is None]
        rens = [x for x in mp if x[1] is not None]
        if dels and rens and self.rng.random() < 0.5:
            # the name of a deleted column is re-used as the new name of another column
            rens[0][1] = dels[0]
            self.cnt("map_columns_reuses_deleted_name")
        elif len(rens) == 2 and self.rng.random() < 0.3:
            # two columns exchange their names
            rens[0][1], rens[1][1] = rens[1][0], rens[0][0]
            self.cnt("map_columns_swaps_names")
        return {"op": "map_columns", "map": mp}, {}

    def step_order_rows(self, st, final=False):
        rng = self.rng
        cand = [c for c in st.frame.columns if st.kinds[c] in ("i", "f", "s")]
        if "null_order" not in self.p.allow:
            cand = [c for c in cand if not st.has_null(c)]
        if not cand:
            return None
        want_limit = rng.random() < 0.45
        if want_limit:
            # which rows a limit keeps is decided by the order keys: a key two engines compute with different last bits
            # (tanh(19) is 1.0 in numpy, 0.99999999999999989 elsewhere) makes the cut ill-conditioned
            tt = tainted_columns(st.node)
            cand2 = [c for c in cand if "*" not in tt and c not in tt]
            if cand2:
                cand = cand2
            else:
                want_limit = False
                self.cnt("limit_over_inexact_keys_avoided")
        k = rng.randint(1, min(3, len(cand)))
        cols = rng.sample(cand, k)
        rev = [c for c in cols if rng.random() < 0.35]
        limit = None
        if want_limit:
            tot = st.nrows() == 0 or not st.frame.duplicated(subset=cols, keep=False).any()
            if not tot:
                order = self.total_order(st, [], 3)
                if order and any(c in tt for c in order):
                    order = None
                if order:
                    cols = order
                    rev = [c for c in cols if rng.random() < 0.35]
                    tot = True
            if tot:
                limit = rng.randint(1, max(1, st.nrows()))
        if "limit0" in self.p.allow and not final and rng.random() < 0.06:
            limit = 0
        return {"op": "order_rows", "cols": cols, "reverse": rev, "limit": limit}, {}

    def step_join(self, st, depth_left):
        rng = self.rng
        if rng.random() < getattr(self.p, "self_join_p", 0.0):
            # the right side is a further-extended copy of the prefix itself (shared sub-DAG)
            right = self.pipeline_state(rng.randint(0, 2), allow_binary=False, start=St(st.node, st.frame, st.kinds))
            self.cnt("self_join")
        else:
            right = self.pipeline_state(max(0, min(2, depth_left - 1)), allow_binary=False)
        jt = rng.choice(self.p.jointypes)
        common = [c for c in st.frame.columns if c in right.frame.columns and st.kinds[c] == right.kinds[c]]
        mism = [c for c in st.frame.columns if c in right.frame.columns and st.kinds[c] != right.kinds[c]]
        if mism:
            # rename away type-incompatible shared columns on the right
            mp = [[self.newcol(right, "j"), c] for c in mism]
            stp = {"op": "rename_columns", "map": mp}
            fr = self.apply(right, stp)
            node = dict(stp)
            node["src"] = right.node
            kinds = dict(right.kinds)
            for new, old in mp:
                kinds[new] = kinds.pop(old)
            right = St(node, fr, kinds)
        keyable = [c for c in common if st.kinds[c] in ("s", "i", "b") and c != "uid"]
        if "null_join" not in self.p.allow:
            keyable = [c for c in keyable if not st.has_null(c) and not right.has_null(c)]
        if jt == "cross":
            on = []
        else:
            if not keyable:
                if "uid" in common and rng.random() < 0.5:
                    keyable = ["uid"]
                else:
                    return None
            on = rng.sample(keyable, rng.randint(1, min(2, len(keyable))))
        est = st.nrows() * max(1, right.nrows())
        if est > self.p.max_join_rows * 4:
            return None
        if on and rng.random() < self.p.pair_keys_p:
            # differently named keys: the right side's first key column gets another name
            k = on[0]
            nk = self.newcol(right, "k")
            while nk in st.frame.columns:
                nk = self.newcol(right, "k")
            stp = {"op": "rename_columns", "map": [[nk, k]]}
            fr = self.apply(right, stp)
            node = dict(stp)
            node["src"] = right.node
            kinds = dict(right.kinds)
            kinds[nk] = kinds.pop(k)
            right = St(node, fr, kinds)
            on = [[k, nk]] + [[x, x] for x in on[1:]]
            self.cnt("paired_keys_join")
        step = {"op": "natural_join", "on": on, "jointype": jt}
        if on and all(isinstance(k, str) for k in on) and rng.random() < 0.15:
            step["legacy_by"] = True  # the deprecated spelling natural_join(by=[...])
        return step, right

    def step_concat(self, st, depth_left):
        rng = self.rng
        # other side: a row-selection / extend variant of the same prefix (shared sub-DAG) or same table
        other = St(st.node, st.frame, st.kinds)
        e, _ = self.boolean(other)
        if "uid" in st.frame.columns and not st.has_null("uid") and rng.random() < 0.2:
            # a side that is empty at run time (a filter nothing passes)
            e = ["bin", "<", ["col", "uid"], ["lit", -1000000]]
            self.cnt("concat_emptied_side")
        if core.expr_cols(e):
            stp = {"op": "select_rows", "expr": e}
            try:
                fr = self.apply(other, stp)
                node = dict(stp)
                node["src"] = other.node
                other = St(node, fr, other.kinds)
            except Exception:
                pass
        idc = None
        if rng.random() < 0.5:
            idc = self.newcol(st, "src")
        step = {"op": "concat_rows", "id_column": idc, "a_name": rng.choice(["a", "left"]), "b_name": rng.choice(["b", "right"])}
        return step, other

    def step_convert_records(self, st):
        """row records -> block records (unpivot) of 2-4 numeric columns, keyed by the unique uid column"""
        rng = self.rng
        if "uid" not in st.frame.columns or st.has_null("uid") or st.frame["uid"].duplicated().any():
            return None
        nums = [c for c in st.cols(("i", "f")) if c != "uid" and str(c).isidentifier()]
        if len(nums) < 2:
            return None
        k = rng.choice([2, 2, 3, 4]) if len(nums) >= 4 else (rng.choice([2, 3]) if len(nums) >= 3 else 2)
        content = rng.sample(nums, k)
        if k == 4 and rng.random() < 0.5:
            nrows, nvals = 2, 2
        else:
            nrows, nvals = k, 1
        self.fresh += 1
        kc = "rk%d" % self.fresh
        vcols = ["rv%d_%d" % (self.fresh, j) for j in range(nvals)]
        rows = []
        it = iter(content)
        for i in range(nrows):
            rows.append(["key%d" % i] + [next(it) for _ in range(nvals)])
        spec = {"record_keys": ["uid"], "control_table_keys": [kc], "control_table": {"cols": [kc] + vcols, "rows": rows},
                "strict": True}
        kinds = {"uid": "i", kc: "s"}
        for v in vcols:
            kinds[v] = "f"
        return {"op": "convert_records", "record_map": {"blocks_in": None, "blocks_out": spec, "strict": True}}, kinds

    # --------------------------------------------------------------- driver
    def pipeline_state(self, depth, allow_binary=True, start=None):
        rng = self.rng
        st = start if start is not None else self.table_state()
        steps_done = 0
        tries = 0
        opsw = dict(self.p.ops)
        if not allow_binary:
            opsw.pop("natural_join", None)
            opsw.pop("concat_rows", None)
        names = list(opsw)
        weights = [opsw[n] for n in names]
        while steps_done < depth and tries < depth * 6 + 6:
            tries += 1
            kind = rng.choices(names, weights)[0]
            right = None
            try:
                if kind == "extend":
                    r = self.step_extend(st)
                elif kind == "wextend":
                    r = self.step_wextend(st)
                elif kind == "owextend":
                    r = self.step_owextend(st)
                elif kind == "project":
                    r = self.step_project(st)
                elif kind == "select_rows":
                    r = self.step_select_rows(st)
                elif kind == "select_columns":
                    r = self.step_select_columns(st)
                elif kind == "drop_columns":
                    r = self.step_drop_columns(st)
                elif kind == "rename_columns":
                    r = self.step_rename_columns(st)
                elif kind == "map_columns":
                    r = self.step_map_columns(st)
                elif kind == "order_rows":
                    r = self.step_order_rows(st)
                elif kind == "convert_records":
                    r = self.step_convert_records(st)
                elif kind == "natural_join":
                    r = self.step_join(st, depth - steps_done)
                    if r is not None:
                        r, right = r[0], r[1]
                        r = (r, {})
                elif kind == "concat_rows":
                    r = self.step_concat(st, depth - steps_done)
                    if r is not None:
                        r, right = r[0], r[1]
                        r = (r, {})
                        if rng.random() < 0.4:
                            # the filtered variant is the first input, the prefix itself the second
                            st, right = right, st
                            self.cnt("concat_filtered_side_first")
                else:
                    r = None
            except Exception:
                self.cnt("gen_step_raised:" + kind)
                r = None
            if r is None:
                self.cnt("gen_redraw:" + kind)
                continue
            step, newkinds = r
            try:
                fr = self.apply(st, step, right)
            except Exception as ex:
                self.cnt("gen_reference_raised:" + kind + ":" + type(ex).__name__)
                continue
            if fr.shape[0] > self.p.max_join_rows:
                self.cnt("gen_too_many_rows")
                continue
            if not frame_is_finite(fr):
                self.cnt("gen_nonfinite")
                continue
            kinds = self.new_kinds(st, step, newkinds, right, fr)
            if kinds is None:
                self.cnt("gen_kinds_lost")
                continue
            node = dict(step)
            node["src"] = st.node
            if right is not None:
                node["right"] = right.node
            st = St(node, fr, kinds)
            steps_done += 1
            self.cnt("step:" + kind)
        return st

    def new_kinds(self, st, step, newkinds, right, fr):
        op = step["op"]
        k = dict(st.kinds)
        if op == "extend":
            k.update(newkinds)
        elif op == "project":
            k = dict(newkinds)
        elif op == "rename_columns":
            k2 = dict(k)
            for new, old in step["map"]:
                k2.pop(old, None)
            for new, old in step["map"]:
                k2[new] = k[old]
            k = k2
        elif op == "map_columns":
            k2 = dict(k)
            for old, new in step["map"]:
                k2.pop(old, None)
            for old, new in step["map"]:
                if new is not None:
                    k2[new] = k[old]
            k = k2
        elif op == "natural_join":
            for c, kk in right.kinds.items():
                k.setdefault(c, kk)
        elif op == "concat_rows":
            if step.get("id_column"):
                k[step["id_column"]] = "s"
        elif op == "convert_records":
            k = dict(newkinds)
        k = {c: k[c] for c in fr.columns if c in k}
        if set(k) != set(fr.columns):
            return None
        return k

    def pipeline(self):
        """returns (recipe, final St, info)"""
        rng = self.rng
        depth = rng.randint(self.p.min_depth, self.p.max_depth)
        st = self.pipeline_state(depth)
        final_order = None
        if rng.random() < self.p.final_order_p and st.node["op"] != "order_rows":
            r = self.step_order_rows(st, final=True)
            if r is not None:
                step, _ = r
                try:
                    fr = self.apply(st, step)
                    node = dict(step)
                    node["src"] = st.node
                    st = St(node, fr, st.kinds)
                except Exception:
                    pass
        if st.node["op"] == "order_rows":
            final_order = (st.node["cols"], st.node.get("reverse") or [])
        return st.node, st, {"final_order": final_order}


def frame_is_finite(fr):
    import numpy

    for c in fr.columns:
        s = fr[c]
        if s.dtype.kind == "f":
            if numpy.isinf(s.to_numpy()).any():
                return False
            v = s.to_numpy()
            if v.size and numpy.nanmax(numpy.abs(v)) > 1e12:
                return False
        elif s.dtype == object:
            for v in s.tolist():
                if isinstance(v, float) and math.isinf(v):
                    return False
    return True


def gen_tables(rng, n=None, max_rows=8, null_ps=(0, 0, 0.2, 0.6)):
    n = n or rng.choice([1, 1, 2, 2, 3])
    return [core.gen_table(rng, "t%d" % i, max_rows=max_rows, null_ps=null_ps) for i in range(n)]


def signature(recipe, tables, extra=""):
    ops = B.op_sequence(recipe)
    meths = []
    for n in B.walk(recipe):
        if n["op"] in ("extend", "project"):
            for _, e in n["ops"]:
                meths.extend(core.expr_methods(e))
        elif n["op"] == "select_rows":
            meths.extend(core.expr_methods(n["expr"]))
    tags = sorted({t for tb in tables for t in tb.get("tags", [])})
    return ">".join(ops) + "|" + ",".join(sorted(set(meths))) + "|" + ",".join(tags) + "|" + extra
