"""The repository's own test suite executed with the contract layer armed (thorough tier of C08 / C19 / C09).

The suite is the one realistic, hand-written workload this repository has: ~380 tests, several hundred distinct
pipelines the random generator would never write (solutions helpers, cdata examples, user functions).  The stage copies
the package under test and /repo/tests to a scratch directory outside /repo and /verif (the suite rewrites its own
cache file), runs pytest there with vf.pytest_monitor_plugin loaded, and reports every contract failure of the calling
check's own property as a violation keyed by the test that produced it.  Test outcomes themselves are not judged here
(that is the baseline's job); only what the monitors observed is.
"""
import json
import os
import shutil
import subprocess
import sys
import tempfile

VERIF_DIR = os.path.dirname(os.path.dirname(os.path.abspath(__file__)))

TESTS = "/repo/tests"


def run(b, own, only=None, timeout_s=2400):
    """b: Batch; own: property id whose contract failures become violations; only: list of test node ids (replay)"""
    repo = os.environ.get("VERIF_REPO", "/repo")
    scratch = tempfile.mkdtemp(prefix="da-suite-")
    try:
        shutil.copytree(os.path.join(repo, "data_algebra"), os.path.join(scratch, "data_algebra"),
                        ignore=shutil.ignore_patterns("__pycache__"))
        shutil.copytree(TESTS, os.path.join(scratch, "tests"), ignore=shutil.ignore_patterns("__pycache__"))
        out = os.path.join(scratch, "suite.json")
        env = dict(os.environ)
        env["PYTHONPATH"] = os.pathsep.join([scratch, os.path.join(VERIF_DIR, ".deps"), VERIF_DIR])
        env["VERIF_SUITE_OUT"] = out
        env["VERIF_SUITE_ROOT"] = scratch
        cmd = [sys.executable, "-m", "pytest", "-q", "-p", "no:cacheprovider", "-p", "vf.pytest_monitor_plugin", "-n", "0",
               "--timeout=900", "--continue-on-collection-errors"] + (list(only) if only else ["tests"])
        try:
            p = subprocess.run(cmd, cwd=scratch, env=env, capture_output=True, text=True, timeout=timeout_s)
        except subprocess.TimeoutExpired:
            b.count("suite_stage", "watchdog")
            return None
        if not os.path.exists(out):
            b.count("suite_stage", "no-output")
            b.counters["suite_stage_tail"] = (p.stdout + p.stderr)[-400:]
            return None
        d = json.load(open(out))
    finally:
        shutil.rmtree(scratch, ignore_errors=True)
    if not d.get("package_file", "").startswith(scratch):
        b.count("suite_stage", "wrong-package-imported")
        return None
    b.count("suite_stage", "ran")
    b.counters["suite_tests"] = d.get("outcomes", {})
    mc = b.counters.setdefault("suite_monitor_calls", {})
    for k, v in d["calls"].items():
        if k.startswith(("contract:", "c08", "c09", "c19")):
            mc[k] = mc.get(k, 0) + v
    seen = set()
    for f in d["failures"]:
        if f["property"] != own:
            b.count("cross_observations", f["property"])
            continue
        t = f.get("test", "?")
        if t in seen:
            continue
        seen.add(t)
        b.violation("suite-under-monitors", f"{t}: [{f.get('where')}] {f['detail'][:900]}", case={"suite_test": t})
    return d


def replay(v, own):
    from vf.util import Batch

    t = (v.get("case") or {}).get("suite_test")
    if not t:
        return None
    b = Batch(own, 0, 0, "quick")
    run(b, own, only=[t.replace("/repo/", "")])
    return (b.violations[0]["kind"] + ": " + b.violations[0]["detail"]) if b.violations else None
