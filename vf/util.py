"""Small helpers shared by check modules."""
import random
import signal
import traceback
from contextlib import contextmanager


class Batch:
    """Collects what the monitors of one worker batch observed."""

    def __init__(self, pid, seed, batch, tier):
        self.pid = pid
        self.seed = seed
        self.batch = batch
        self.tier = tier
        self.rng = random.Random((seed * 1000003 + batch * 7919 + 17) & 0xFFFFFFFF)
        self.counters = {"evaluations": 0}
        self.sigs = set()
        self.samples = []
        self.violations = []

    def count(self, *path, n=1):
        d = self.counters
        for k in path[:-1]:
            d = d.setdefault(str(k), {})
        d[str(path[-1])] = d.get(str(path[-1]), 0) + n

    def evaluation(self, n=1):
        self.counters["evaluations"] += n
        WATCHDOG_FIRED[0] = False  # a new case starts

    def sig(self, s):
        self.sigs.add(s if isinstance(s, str) else repr(s))

    def sample(self, s, limit=2):
        if len(self.samples) < limit:
            self.samples.append(s)

    def violation(self, kind, detail, case=None, finding_key=None):
        if WATCHDOG_FIRED[0]:
            self.count("dropped_after_watchdog_fired", kind)
            return
        if len(self.violations) < 60:
            self.violations.append(
                {
                    "kind": kind,
                    "detail": str(detail)[:3000],
                    "case": case,
                    "finding_key": finding_key,
                    "seed": self.seed,
                    "batch": self.batch,
                    "tier": self.tier,
                }
            )
        self.count("violations_raw", kind)

    def result(self):
        return {
            "counters": self.counters,
            "sigs": sorted(self.sigs),
            "samples": self.samples,
            "violations": self.violations,
        }


class CaseTimeout(BaseException):
    """per-case watchdog; a BaseException so that the oracles' own `except Exception` clauses (which turn a raise of the
    code under test into an observation) can never mistake the watchdog for a behaviour of the repository"""


# True from the moment a case's watchdog fired until the next case starts.  The CaseTimeout raised by the handler does
# not always arrive as such: raised inside a Python callback of SQLite (a user-defined function) it is swallowed and comes
# back as DatabaseError "user-defined function raised exception".  Whatever an oracle concludes after its watchdog fired
# is not a verdict on the repository: Batch.violation drops it (counted).
WATCHDOG_FIRED = [False]


@contextmanager
def time_limit(seconds):
    def handler(signum, frame):
        WATCHDOG_FIRED[0] = True
        raise CaseTimeout()

    WATCHDOG_FIRED[0] = False
    old = signal.signal(signal.SIGALRM, handler)
    signal.setitimer(signal.ITIMER_REAL, seconds)
    try:
        yield
    finally:
        signal.setitimer(signal.ITIMER_REAL, 0)
        signal.signal(signal.SIGALRM, old)


def exc_str(ex):
    s = "".join(traceback.format_exception_only(type(ex), ex)).strip()
    # database errors quote the whole statement first and say what is wrong last: keep both ends
    return s if len(s) <= 700 else s[:300] + " [...] " + s[-400:]


def split_plan(total, batches):
    """cases per batch so that sum == total"""
    base = total // batches
    rem = total % batches
    return [base + (1 if i < rem else 0) for i in range(batches)]
