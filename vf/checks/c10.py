"""C10 — columns that columns_used() does not report never influence the result.

Metamorphic monitor.  For each generated (pipeline, inputs):
  (1) every input column that columns_used() does not report for its table is replaced by fresh values of the same
      type, and separately by all-null; the Pandas result and the SQLite result must each stay what they were;
  (2) the pipeline is rebuilt with its table descriptions narrowed to the reported columns
      (replace_leaves) and evaluated on inputs restricted to those columns: same result.
Shapes that stress the analysis are boosted: joins with differently named keys, a shared sub-pipeline feeding two
branches that need different columns ("diamond"), narrowing steps after joins/concats.
"""
import copy

from vf import backends, monitors
from vf import build as B
from vf import diff
from vf.compare import frames_match
from vf.gen import core, recipes as R
from vf.util import Batch, exc_str, time_limit, CaseTimeout

PID = "C10"
LEVEL = "exploration"
RULE = (
    "random pipelines (depth 1-8 quick / 1-14 thorough; joins with same-named and differently named keys, shared "
    "sub-pipelines feeding two branches, narrowing steps boosted) over 1-3 tables; 3 perturbations of the unreported "
    "columns per case (2 random refills, 1 all-null) on Pandas and SQLite, plus the narrowed rebuild; non-trivial = at "
    "least one table has >= 1 unreported column; distinct = distinct (operator sequence, unreported-count profile)"
)
ASSUMPTIONS = ["a perturbed column keeps its declared type (kind) so that the pipeline stays well-typed"]

N = {"quick": 1200, "thorough": 50000}
NB = {"quick": 16, "thorough": 64}


def plan(tier):
    return {"batches": NB[tier], "batch_timeout_s": 3000}


def profile(tier, rng):
    return R.Profile(allow=("null_group", "null_join", "null_cmp", "agg_allnull", "minmax_null", "str_null"),
                     max_depth=8 if tier == "quick" else rng.choice([8, 14]), min_depth=1, self_join_p=0.3, pair_keys_p=0.4,
                     ops={"extend": 4, "wextend": 2, "owextend": 1, "project": 2, "select_rows": 2, "select_columns": 4,
                          "drop_columns": 3, "rename_columns": 1, "map_columns": 2, "order_rows": 1, "natural_join": 4,
                          "concat_rows": 2, "convert_records": 1})


def diamond(g, st, rng):
    """shared prefix -> two narrowed branches that need different columns -> join"""
    cols = list(st.frame.columns)
    keyc = [c for c in cols if st.kinds[c] in ("s", "i") and c != "uid" and not st.has_null(c)]
    if not keyc or len(cols) < 3:
        return None
    k = rng.choice(keyc)
    rest = [c for c in cols if c != k]
    rng.shuffle(rest)
    h = max(1, len(rest) // 2)
    a_cols, b_cols = rest[:h], rest[h:] or rest[:1]
    shared = st.node
    left = {"op": "select_columns", "cols": [k] + a_cols, "src": shared}
    right = {"op": "select_columns", "cols": [k] + b_cols, "src": shared}
    if rng.random() < 0.5:
        # let the right branch compute from its columns instead of only passing them on
        nums = [c for c in b_cols if st.kinds[c] in ("i", "f")]
        if nums:
            right = {"op": "project", "ops": [["dz", ["m", "max", ["col", rng.choice(nums)], []]]], "group_by": [k], "src": shared}
    node = {"op": "natural_join", "on": [k], "jointype": rng.choice(["inner", "left"]), "src": left, "right": right}
    try:
        fr = B.build(node).eval({t["name"]: core.table_frame(t) for t in g.tables})
    except Exception:
        return None
    if fr.shape[0] > 200:
        return None
    return node


def perturb_tables(tables, used, rng, mode):
    """copy of tables with every unreported column refilled; returns (tables, number of columns changed)"""
    out = []
    n = 0
    for t in tables:
        u = used.get(t["name"])
        if u is None:
            out.append(t)
            continue
        t2 = copy.deepcopy(t)
        for j, (c, k) in enumerate(t2["cols"]):
            if c in u:
                continue
            n += 1
            for r in t2["rows"]:
                if mode == "null":
                    r[j] = None
                else:
                    r[j] = core.gen_value(rng, k, small=False) if rng.random() > 0.15 else None
        out.append(t2)
    return out, n


def run_sqlite(sq, ops, frames):
    try:
        return sq.run(ops, frames)
    except Exception as ex:
        return ex


def judge(b, case, sq, rng, cj):
    """returns True if a violation was recorded"""
    from data_algebra.view_representations import TableDescription

    ops = B.build(case["recipe"])
    names = set(B.tables_of(case["recipe"]))
    tables = [t for t in case["tables"] if t["name"] in names]
    frames = {t["name"]: core.table_frame(t) for t in tables}
    if rng.random() < 0.3:
        # an earlier, restricted question to the same pipeline object must not change the answer to the plain one
        try:
            outs = list(ops.column_names)
            ops.columns_used(using=set(rng.sample(outs, rng.randint(1, len(outs)))))
            b.count("restricted_columns_used_asked_first")
        except Exception as ex:
            b.count("restricted_columns_used_raised", type(ex).__name__)
    try:
        used = ops.columns_used()
    except Exception as ex:
        b.violation("columns_used-raised", f"{exc_str(ex)}\npipeline: {diff.describe(case)[-700:]}", case=cj)
        return True
    used = {k: set(v) for k, v in used.items()}
    for t in tables:
        extra = used.get(t["name"], set()) - {c for c, _ in t["cols"]}
        if extra:
            b.violation("reports-unknown-columns", f"columns_used() reports {extra} for table {t['name']}", case=cj)
            return True
    unrep = {t["name"]: [c for c, _ in t["cols"] if c not in used.get(t["name"], set())] for t in tables}
    n_unrep = sum(len(v) for v in unrep.values())
    b.count("unreported_columns_per_case", str(min(n_unrep, 6)))
    try:
        ref = ops.eval({k: v.copy() for k, v in frames.items()})
    except Exception as ex:
        b.count("reference_raised", type(ex).__name__)
        return False
    ref_sql = run_sqlite(sq, ops, frames)
    if n_unrep > 0:
        for mode in ("random", "random", "null"):
            pt, nchanged = perturb_tables(tables, used, rng, mode)
            pframes = {t["name"]: core.table_frame(t) for t in pt}
            b.count("perturbations", mode)
            try:
                got = ops.eval({k: v.copy() for k, v in pframes.items()})
            except Exception as ex:
                b.violation("perturbed-eval-raised",
                            f"Pandas: after changing only unreported columns {unrep} evaluation raises {exc_str(ex)}\n"
                            f"pipeline: {diff.describe(case)[-900:]}", case=dict(cj, perturbed=pt))
                return True
            m = frames_match(ref, got)
            if m:
                b.violation("unreported-column-influences-result",
                            f"Pandas: changing only unreported columns {unrep} (columns_used() = "
                            f"{ {k: sorted(v) for k, v in used.items()} }) changed the result: {m}\npipeline: {diff.describe(case)[-900:]}",
                            case=dict(cj, perturbed=pt))
                return True
            if not isinstance(ref_sql, Exception):
                got_sql = run_sqlite(sq, ops, pframes)
                b.count("sqlite_perturbations")
                if isinstance(got_sql, Exception):
                    b.violation("perturbed-eval-raised", f"SQLite: after changing only unreported columns {unrep}: {exc_str(got_sql)}",
                                case=dict(cj, perturbed=pt, backend="sqlite"))
                    return True
                m = frames_match(ref_sql, got_sql)
                if m:
                    b.violation("unreported-column-influences-result",
                                f"SQLite: changing only unreported columns {unrep} changed the result: {m}\n"
                                f"pipeline: {diff.describe(case)[-900:]}", case=dict(cj, perturbed=pt, backend="sqlite"))
                    return True
    # (2) narrowing
    try:
        repl = {}
        for k, td in ops.get_tables().items():
            keep = [c for c in td.column_names if c in used.get(k, set())]
            if not keep:
                keep = list(td.column_names)[:1]
            repl[k] = TableDescription(table_name=td.table_name, column_names=keep)
        narrow = ops.replace_leaves(repl)
    except Exception as ex:
        b.count("narrowed_rebuild_rejected", type(ex).__name__)
        return False
    b.count("narrowed_rebuilds")
    nframes = {k: frames[k][list(repl[k].column_names)].copy() for k in repl}
    try:
        got = narrow.eval(nframes)
    except Exception as ex:
        b.violation("narrowed-eval-raised", f"the pipeline narrowed to columns_used() raises on the restricted inputs: {exc_str(ex)}\n"
                    f"columns_used: { {k: sorted(v) for k, v in used.items()} }\npipeline: {diff.describe(case)[-900:]}", case=cj)
        return True
    m = frames_match(ref, got)
    if m:
        b.violation("narrowed-result-differs", f"{m}\ncolumns_used: { {k: sorted(v) for k, v in used.items()} }\n"
                    f"pipeline: {diff.describe(case)[-900:]}", case=cj)
        return True
    if n_unrep > 0:
        prof = ",".join(str(len(unrep[k])) for k in sorted(unrep))
        b.sig(">".join(B.op_sequence(case["recipe"])) + "|" + prof)
    return False


def run_batch(seed, batch, tier):
    monitors.install()
    b = Batch(PID, seed, batch, tier)
    sq = backends.Sqlite()
    gl = {}
    for i in range(N[tier] // NB[tier]):
        monitors.OBS.reset_case()
        try:
            with time_limit(60):
                rng = b.rng
                prof = profile(tier, rng)
                case, st = diff.new_case(rng, prof, tier, gl)
                if rng.random() < 0.2:
                    g = R.Gen(rng, case["tables"], prof, gl)
                    d = diamond(g, st, rng)
                    if d is not None:
                        case["recipe"] = d
                        b.count("diamond_shapes")
                        if rng.random() < 0.5:
                            keep = [c for c in B.build(d).column_names]
                            rng.shuffle(keep)
                            case["recipe"] = {"op": "select_columns", "cols": keep[: max(1, len(keep) // 2)], "src": d}
                if case["recipe"]["op"] == "table":
                    continue
                b.evaluation()
                cj = diff.case_json(case)
                judge(b, case, sq, rng, cj)
                for o in B.op_sequence(case["recipe"]):
                    b.count("operators", o)
                b.sample({"pipeline": diff.describe(case)[-500:]}, limit=1)
        except CaseTimeout:
            b.count("case_timeout")
        except Exception as ex:
            b.count("harness_error", type(ex).__name__ + ":" + str(ex)[:100])
    b.counters["generator"] = {k: v for k, v in gl.items() if k.startswith(("step:", "paired", "self_join"))}
    sq.close()
    return b.result()


def replay(v):
    import random

    c = v.get("case") or {}
    if "recipe" not in c:
        return None
    b = Batch(PID, 0, 0, "quick")
    sq = backends.Sqlite()
    try:
        for s in range(5):
            if judge(b, c, sq, random.Random(s), dict(c)):
                break
    finally:
        sq.close()
    return (b.violations[0]["kind"] + ": " + b.violations[0]["detail"]) if b.violations else None


def inconclusive(counters, sigs, tier):
    if counters.get("perturbations", {}).get("random", 0) < 200:
        return "fewer than 200 perturbations"
    if counters.get("narrowed_rebuilds", 0) < 100:
        return "fewer than 100 narrowed rebuilds"
    g = counters.get("generator", {})
    if g.get("paired_keys_join", 0) < 10:
        return "joins with differently named keys generated %d times" % g.get("paired_keys_join", 0)
    if counters.get("diamond_shapes", 0) < 10:
        return "fewer than 10 shared-sub-pipeline (diamond) shapes"
    return None
