"""C03 — the Polars executor agrees with the Pandas executor whenever it returns a result.

Differential monitor: every generated (pipeline, input) is evaluated by the Pandas executor and by the Polars
executor three ways (eager frames, lazy frames, PolarsModel(use_lazy_eval=False)).  A raise on the Polars side is an
allowed outcome (counted per step kind and exception class); a returned table that differs from the Pandas table in
columns or row multiset (or key order after a final order_rows) is a violation.
"""
from vf import backends, monitors
from vf import build as B
from vf import diff
from vf.compare import frames_match, frame_to_json
from vf.gen import recipes as R
from vf.util import Batch, exc_str, time_limit, CaseTimeout

PID = "C03"
LEVEL = "exploration"
RULE = (
    "random well-typed pipelines (depth 1-8 quick / 1-14 thorough, all public operators, joins with same-named and "
    "differently named keys) over 1-3 generated tables (nulls, duplicates, ties, empty and single-row tables); Pandas "
    "result vs Polars result for eager input, lazy input and the eager Polars model; non-trivial = Polars returned "
    "(did not raise) and the pipeline has >= 2 operators; distinct = distinct (operator sequence, method set, input "
    "class tags, presentations that returned)"
)
ASSUMPTIONS = [
    "NaN produced by arithmetic is compared as null on both sides; inputs never contain NaN distinct from null",
    "executions inside the trigger of a recorded divergence (null operands of comparisons: Pandas is two-valued) are "
    "not generated",
]

N = {"quick": 1600, "thorough": 60000}
NB = {"quick": 16, "thorough": 64}
MODES = ("polars", "polars-lazy", "polars-eager-model")


def profile(tier, rng):
    return R.Profile(allow=("null_group", "null_join", "limit0"), max_depth=8 if tier == "quick" else rng.choice([6, 10, 14]),
                     expr_depth=2 if tier == "quick" else rng.choice([2, 3]), pair_keys_p=0.3,
                     # Polars 1.44 no longer has Expr.cumsum/cummax/... (those steps raise, which is allowed): keep a few,
                     # weight the ordered windows toward what still returns
                     owin_methods=["shift", "shift", "shift", "cumsum", "_row_number"],
                     agg_methods=["sum", "mean", "min", "max", "count", "size", "_size", "one_sum", "median", "std", "var", "nunique"],
                     win_methods=["sum", "mean", "min", "max", "count", "size", "_size", "median", "std", "var", "nunique"])


def plan(tier):
    return {"batches": NB[tier], "batch_timeout_s": 3000, "hashseeds": [0] if tier == "quick" else [0, 1, 7]}


def run_mode(ops, frames, mode):
    return backends.run_polars(ops, frames, lazy=(mode == "polars-lazy"), eager_model=(mode == "polars-eager-model"))


def compare_case(case, modes=MODES):
    """returns dict mode -> (status, detail); status in ok | mismatch | raised; or {'ref': status}"""
    try:
        ops = B.build(case["recipe"])
    except Exception as ex:
        return {"ref": ("build-raised", exc_str(ex))}
    frames = diff.used_frames(case)
    try:
        ref = backends.run_pandas(ops, frames)
    except Exception as ex:
        return {"ref": ("ref-raised", exc_str(ex))}
    fo = case.get("final_order")
    out = {}
    for mode in modes:
        try:
            got = run_mode(ops, frames, mode)
        except Exception as ex:
            out[mode] = ("raised", type(ex).__name__)
            continue
        m = frames_match(ref, got, ordered_by=fo[0] if fo else None)
        if m:
            out[mode] = ("mismatch", m + " | pandas=%s | polars=%s" % (frame_to_json(ref, 8), frame_to_json(got, 8)))
        else:
            out[mode] = ("ok", "")
    return out


def mixed_unpivot(case, st, rng):
    """final unpivot that routes a numeric and a string column into one block column (an entity-attribute-value layout):
    Polars may refuse (no common type), it must not return the numbers as text"""
    fr = st.frame
    if "uid" not in fr.columns or st.has_null("uid") or fr["uid"].duplicated().any() or fr.shape[0] == 0:
        return None
    nums = [c for c in st.cols(("i", "f")) if c != "uid" and str(c).isidentifier() and not st.has_null(c)]
    strs = [c for c in st.cols(("s",)) if str(c).isidentifier() and not st.has_null(c)]
    if not nums or not strs:
        return None
    content = [rng.choice(nums), rng.choice(strs)]
    rng.shuffle(content)
    spec = {"record_keys": ["uid"], "control_table_keys": ["rkm"],
            "control_table": {"cols": ["rkm", "rvm"], "rows": [["key0", content[0]], ["key1", content[1]]]}, "strict": True}
    return {"op": "convert_records", "record_map": {"blocks_in": None, "blocks_out": spec, "strict": True}, "src": case["recipe"]}


def run_batch(seed, batch, tier):
    monitors.install()
    b = Batch(PID, seed, batch, tier)
    n = N[tier] // NB[tier]
    gl = {}
    for i in range(n):
        monitors.OBS.reset_case()
        try:
            with time_limit(30):
                case, st = diff.new_case(b.rng, profile(tier, b.rng), tier, gl)
                if b.rng.random() < 0.2:
                    mixed = mixed_unpivot(case, st, b.rng)
                    if mixed is not None:
                        case["recipe"], case["final_order"] = mixed, None
                        b.count("mixed_type_unpivot_shapes")
                b.evaluation()
                res = compare_case(case)
        except CaseTimeout:
            b.count("case_timeout")
            continue
        if "ref" in res:
            b.count("status", res["ref"][0])
            continue
        trig = set(monitors.OBS.triggers) - {"sql_zero_using"}
        ops_seq = B.op_sequence(case["recipe"])
        last = case["recipe"]["op"]
        returned = []
        bad = None
        for mode, (status, detail) in res.items():
            b.count("status", mode + ":" + status)
            if status == "raised":
                b.count("polars_raises", detail)
            elif status == "ok":
                returned.append(mode)
            elif status == "mismatch" and bad is None:
                bad = (mode, detail)
        if returned or bad:
            for o in set(ops_seq):
                b.count("operators_compared", o)
        if bad:
            if trig:
                b.count("not_judged_trigger", ",".join(sorted(trig)))
                continue
            mode, detail = bad

            def fails(c, _m=mode):
                # candidates in which a trigger monitor fires are executions the check does not judge (see C01)
                monitors.OBS.reset_case()
                r = compare_case(c, modes=(_m,))
                return r.get(_m, ("", ""))[0] == "mismatch" and not (set(monitors.OBS.triggers) - {"sql_zero_using"})

            small = diff.shrink(case, fails)
            r2 = compare_case(small, modes=(mode,))
            d2 = r2.get(mode, ("", ""))
            if d2[0] != "mismatch":
                small, d2 = case, ("mismatch", detail)
            b.violation("polars-differs-from-pandas", f"{mode}: {d2[1]}\npipeline: {diff.describe(small)}",
                        case=diff.case_json(small, {"mode": mode}))
        elif returned:
            if sum(1 for o in ops_seq if o != "table") >= 2:
                b.sig(R.signature(case["recipe"], case["tables"], ",".join(returned)))
            b.sample({"pipeline": diff.describe(case), "returned": returned}, limit=1)
    b.counters["generator"] = {k: v for k, v in gl.items() if k.startswith(("step:", "paired"))}
    return b.result()


def replay(v):
    monitors.install()
    c = v.get("case")
    if not c:
        return None
    mode = c.get("mode", "polars")
    monitors.OBS.reset_case()
    r = compare_case(c, modes=(mode,))
    st = r.get(mode)
    if st and st[0] == "mismatch":
        if set(monitors.OBS.triggers) - {"sql_zero_using"}:
            return None  # as in run_batch: an execution in which a trigger monitor fired is not judged
        return mode + ": " + st[1]
    return None


def inconclusive(counters, sigs, tier):
    st = counters.get("status", {})
    tot = sum(v for k, v in st.items() if k.startswith("polars:"))
    if tot == 0:
        return "no cases"
    okc = st.get("polars:ok", 0)
    if okc < 0.3 * tot:
        return f"Polars returned on only {okc}/{tot} cases"
    need = ["extend", "project", "select_rows", "select_columns", "drop_columns", "rename_columns", "map_columns",
            "order_rows", "natural_join", "concat_rows"]
    miss = [o for o in need if counters.get("operators_compared", {}).get(o, 0) == 0]
    if miss:
        return "operator kinds never compared: %s" % miss
    return None
