"""C18 — results ignore input row order and index; order_rows orders and limits.

Metamorphic monitor.  For each generated pipeline whose window orders are total (verified on the materialised prefix by
the generator) the inputs are re-presented - rows permuted; Pandas frames additionally with a shuffled integer index,
duplicate index labels, a string index, a descending index, an offset RangeIndex, a stepped RangeIndex, a named index -
and the result must be the same multiset of rows on Pandas, Polars and SQLite (each backend against itself).
When the pipeline ends in order_rows the returned rows must be sorted by the declared columns with the declared
reversals; with a limit they must be a first-`limit` prefix of that order: a sub-multiset of the unlimited result, of
size min(limit, n), and no excluded row may sort strictly before an included one.
Record transforms inside a pipeline (convert_records, block -> row) are driven with permuted block rows as well.
"""
import json

from vf import backends, monitors
from vf import build as B
from vf import diff
from vf.compare import frames_match, to_rows, row_eq, cell_eq
from vf.gen import core, recipes as R, records as RG
from vf.util import Batch, exc_str, time_limit, CaseTimeout

PID = "C18"
LEVEL = "exploration"
RULE = (
    "random pipelines (depth 1-8 quick / 1-14 thorough) with total window orders, 40% ending in order_rows (half of "
    "those with a limit, incl. limit 0 and limits beyond the row count, ties allowed in the order keys); inputs "
    "re-presented 3 ways per case out of {permuted rows, shuffled int index, duplicate labels, string index, descending "
    "index, offset RangeIndex, stepped RangeIndex, named index}; Polars and SQLite get the permutation; plus "
    "convert_records pipelines over permuted block rows; non-trivial = pipeline has an ordered window, a join, a "
    "project or a final order/limit and the presentation differs from the original; distinct = distinct (operator "
    "sequence, presentation, backend set)"
)
ASSUMPTIONS = ["each backend is compared with its own result on the original presentation",
               "null placement among order keys is not judged (no nulls are generated in order keys)"]

N = {"quick": 1200, "thorough": 50000}
NB = {"quick": 16, "thorough": 64}
PRES = ["permuted", "shuffled-int-index", "dup-index", "str-index", "desc-index", "range-offset", "range-step", "named-index"]


def plan(tier):
    return {"batches": NB[tier], "batch_timeout_s": 3000}


def profile(tier, rng):
    return R.Profile(allow=("null_group", "null_join", "null_cmp", "agg_allnull", "minmax_null", "limit0"),
                     max_depth=8 if tier == "quick" else rng.choice([8, 14]), min_depth=1, final_order_p=0.5, pair_keys_p=0.2,
                     ops={"extend": 4, "wextend": 2, "owextend": 4, "project": 2, "select_rows": 2, "select_columns": 1,
                          "drop_columns": 1, "rename_columns": 1, "map_columns": 1, "order_rows": 2, "natural_join": 3,
                          "concat_rows": 1, "convert_records": 1})


def present(frame, how, rng):
    import pandas

    n = frame.shape[0]
    f = frame.copy()
    if how == "permuted":
        idx = list(range(n))
        rng.shuffle(idx)
        return f.iloc[idx].reset_index(drop=True)
    idx = list(range(n))
    rng.shuffle(idx)
    f = f.iloc[idx]  # the rows come permuted *and* carry their old labels
    if how == "shuffled-int-index":
        return f
    if how == "dup-index":
        f.index = [i // 2 for i in range(n)]
    elif how == "str-index":
        f.index = ["r%d" % (n - i) for i in range(n)]
    elif how == "desc-index":
        f.index = list(range(n, 0, -1))
    elif how == "range-offset":
        f.index = pandas.RangeIndex(100, 100 + n)
    elif how == "range-step":
        f.index = pandas.RangeIndex(0, 2 * n, 2)
    elif how == "named-index":
        f.index = pandas.Index(list(range(5, 5 + n)), name="row_label")
    return f


def sort_key_rows(frame, cols):
    return to_rows(frame, cols)


def cmp_cell(a, b):
    """-1, 0, 1 (None never occurs in order keys here)"""
    # exact: the order inside one backend's own result is decided on the exact values (a tolerance would invent ties)
    if a == b:
        return 0
    return -1 if a < b else 1


def order_cmp(ra, rb, reverse_flags):
    for a, b, rev in zip(ra, rb, reverse_flags):
        c = cmp_cell(a, b)
        if c != 0:
            return -c if rev else c
    return 0


def check_sorted(res, cols, reverse):
    keys = sort_key_rows(res, cols)
    flags = [c in set(reverse) for c in cols]
    for i in range(len(keys) - 1):
        if any(v is None for v in keys[i]) or any(v is None for v in keys[i + 1]):
            continue
        if order_cmp(keys[i], keys[i + 1], flags) > 0:
            return f"rows {i} and {i + 1} are out of order on {cols} (reverse={reverse}): {keys[i]} then {keys[i + 1]}"
    return None


def check_limit(res, unlimited, cols, reverse, limit):
    allcols = sorted(res.columns, key=str)
    got = to_rows(res, allcols)
    full = to_rows(unlimited, allcols)
    want_n = min(limit, len(full))
    if len(got) != want_n:
        return f"limit={limit}: {len(got)} rows returned, the unlimited result has {len(full)}"
    rest = list(full)
    for r in got:
        for j, x in enumerate(rest):
            if row_eq(r, x):
                del rest[j]
                break
        else:
            return f"limit={limit}: returned row {r} is not a row of the unlimited result"
    if not got or not rest:
        return None
    ki = [allcols.index(c) for c in cols]
    flags = [c in set(reverse) for c in cols]
    last = max(([r[i] for i in ki] for r in got), key=None) if False else None
    # the worst included row must not sort strictly after any excluded row
    inc = [[r[i] for i in ki] for r in got]
    exc = [[r[i] for i in ki] for r in rest]
    if any(v is None for k in inc + exc for v in k):
        return None
    worst = inc[0]
    for k in inc[1:]:
        if order_cmp(k, worst, flags) > 0:
            worst = k
    for k in exc:
        if order_cmp(k, worst, flags) < 0:
            return f"limit={limit}: excluded row with keys {k} sorts before included row with keys {worst} (order {cols}, reverse={reverse})"
    return None


def judge(b, case, sq, rng, pres_list):
    ops = B.build(case["recipe"])
    frames = diff.used_frames(case)
    fo = case.get("final_order")
    cj = diff.case_json(case)
    try:
        ref = backends.run_pandas(ops, frames)
    except Exception as ex:
        b.count("reference_raised", type(ex).__name__)
        return None
    used = set()
    root = case["recipe"]
    # --- sortedness / limit on the original presentation, per backend
    refs = {"pandas": ref}
    try:
        refs["sqlite"] = sq.run(ops, frames)
    except Exception as ex:
        b.count("backend_raised", "sqlite:" + type(ex).__name__)
    try:
        refs["polars"] = backends.run_polars(ops, frames)
    except Exception as ex:
        b.count("backend_raised", "polars:" + type(ex).__name__)
    if root["op"] == "order_rows":
        cols, rev, limit = root["cols"], root.get("reverse") or [], root.get("limit")
        unl = None
        if limit is not None:
            r2 = dict(root)
            r2["limit"] = None
            unl_ops = B.build(r2)
        for be, res in refs.items():
            b.count("sortedness_checked", be)
            m = check_sorted(res, cols, rev)
            if m:
                b.violation("order_rows-not-sorted", f"{be}: {m}\npipeline: {diff.describe(case)[-600:]}", case=dict(cj, backend=be))
                return None
            if limit is not None:
                try:
                    if be == "pandas":
                        unl = backends.run_pandas(unl_ops, frames)
                    elif be == "sqlite":
                        unl = sq.run(unl_ops, frames)
                    else:
                        unl = backends.run_polars(unl_ops, frames)
                except Exception as ex:
                    b.count("backend_raised", be + ":unlimited:" + type(ex).__name__)
                    continue
                b.count("limits_checked", be)
                m = check_limit(res, unl, cols, rev, limit)
                if m:
                    b.violation("limit-not-a-prefix", f"{be}: {m}\npipeline: {diff.describe(case)[-600:]}", case=dict(cj, backend=be))
                    return None
    # --- re-presentations
    limited_with_ties = False
    if root["op"] == "order_rows" and root.get("limit") is not None:
        # with ties at the cut a limited result may legitimately keep different tied rows: compare key multisets only
        limited_with_ties = True
    for how in pres_list:
        pf = {k: present(v, how, rng) for k, v in frames.items()}
        for be in refs:
            if be != "pandas" and how != "permuted":
                continue
            try:
                if be == "pandas":
                    got = backends.run_pandas(ops, pf)
                elif be == "sqlite":
                    got = sq.run(ops, {k: v.reset_index(drop=True) for k, v in pf.items()})
                else:
                    got = backends.run_polars(ops, {k: v.reset_index(drop=True) for k, v in pf.items()})
            except Exception as ex:
                b.violation("re-presented-input-raises", f"{be}: inputs presented as '{how}': {exc_str(ex)}; the original "
                            f"presentation evaluates\npipeline: {diff.describe(case)[-600:]}", case=dict(cj, backend=be, presentation=how))
                return None
            b.count("presentations", be + ":" + how)
            if limited_with_ties:
                cols = root["cols"]
                m = frames_match(refs[be][cols], got[cols]) if set(cols) <= set(got.columns) else "columns missing"
            else:
                m = frames_match(refs[be], got, ordered_by=fo[0] if fo else None)
            if m:
                from vf.checks.c19 import tied_limit

                if tied_limit(case, frames, "pandas" if be in ("pandas", "sqlite") else "polars"):
                    # an order_rows(limit=k) inside the pipeline whose order keys tie on this engine: which tied rows
                    # are kept is not fixed, so the result may legitimately follow the input order
                    b.count("limit_with_ties_not_judged", be)
                    continue
            if m:
                b.violation("result-depends-on-input-order-or-index", f"{be}: inputs presented as '{how}': {m}\n"
                            f"pipeline: {diff.describe(case)[-700:]}", case=dict(cj, backend=be, presentation=how))
                return None
            used.add(be + ":" + how)
    return used


def record_case(b, sq, rng):
    """convert_records (block -> row and row -> block) in a pipeline over permuted rows"""
    from data_algebra.view_representations import TableDescription

    spec = RG.gen_spec(rng)
    rows = RG.gen_rowrecs(rng, spec)
    blocks = RG.ref_unpivot(rows, spec)
    try:
        m_in = B.build_record_map({"blocks_in": spec, "blocks_out": None, "strict": True})
    except Exception:
        return
    WB = RG.to_frame(blocks, RG.block_columns(spec))
    ops = TableDescription(table_name="blk", column_names=RG.block_columns(spec)).convert_records(m_in)
    want = RG.to_frame(RG.ref_pivot(blocks, spec), RG.row_columns(spec))
    b.evaluation()
    for how in ("original", "permuted", "str-index", "range-offset"):
        f = WB if how == "original" else present(WB, how, rng)
        for be in ("pandas", "sqlite", "polars"):
            if be != "pandas" and how not in ("original", "permuted"):
                continue
            try:
                if be == "pandas":
                    got = backends.run_pandas(ops, {"blk": f})
                elif be == "sqlite":
                    got = sq.run(ops, {"blk": f.reset_index(drop=True)})
                else:
                    got = backends.run_polars(ops, {"blk": f.reset_index(drop=True)})
            except Exception as ex:
                b.count("record_backend_raised", be + ":" + type(ex).__name__)
                continue
            b.count("record_presentations", be + ":" + how)
            m = frames_match(want, got)
            if m:
                b.violation("record-transform-depends-on-row-order", f"{be}: block rows presented as '{how}': {m}\nspec: {json.dumps(spec)[:500]}",
                            case={"spec": spec, "rows": rows, "backend": be, "presentation": how})
                return
    b.sig(f"convert_records|{len(spec['control_table']['rows'])}x{len(spec['control_table']['cols'])}|{len(rows)}")


def nontrivial(case):
    ops = B.op_sequence(case["recipe"])
    return any(o in ("natural_join", "project", "order_rows") for o in ops) or any(
        n["op"] == "extend" and n.get("order_by") for n in B.walk(case["recipe"]))


def run_batch(seed, batch, tier):
    monitors.install()
    b = Batch(PID, seed, batch, tier)
    sq = backends.Sqlite()
    gl = {}
    for i in range(N[tier] // NB[tier]):
        monitors.OBS.reset_case()
        try:
            with time_limit(60):
                rng = b.rng
                if rng.random() < 0.12:
                    record_case(b, sq, rng)
                    continue
                case, st = diff.new_case(rng, profile(tier, rng), tier, gl)
                if case["recipe"]["op"] == "table":
                    continue
                # limits beyond the row count and ties at the cut
                root = case["recipe"]
                if root["op"] == "order_rows" and root.get("limit") is not None and rng.random() < 0.3:
                    root["limit"] = rng.choice([0, 1, 2, 50])
                    if rng.random() < 0.5:
                        root["cols"] = root["cols"][:1]
                        root["reverse"] = [c for c in (root.get("reverse") or []) if c in root["cols"]]
                        case["final_order"] = (root["cols"], root["reverse"])
                b.evaluation()
                pres_list = ["permuted"] + rng.sample(PRES[1:], 2)
                used = judge(b, case, sq, rng, pres_list)
                for o in B.op_sequence(case["recipe"]):
                    b.count("operators", o)
                if used and nontrivial(case):
                    b.sig(">".join(B.op_sequence(case["recipe"])) + "|" + ",".join(sorted(used)))
                b.sample({"pipeline": diff.describe(case)[-500:]}, limit=1)
        except CaseTimeout:
            b.count("case_timeout")
        except Exception as ex:
            b.count("harness_error", type(ex).__name__ + ":" + str(ex)[:120])
    b.counters["generator"] = {k: v for k, v in gl.items() if k.startswith("step:")}
    sq.close()
    return b.result()


def replay(v):
    import random

    c = v.get("case") or {}
    b = Batch(PID, 0, 0, "quick")
    sq = backends.Sqlite()
    try:
        if "recipe" in c:
            for s in range(4):
                judge(b, c, sq, random.Random(s), [c.get("presentation", "permuted")] if c.get("presentation") in PRES else ["permuted"])
                if b.violations:
                    break
        else:
            return None
    finally:
        sq.close()
    return (b.violations[0]["kind"] + ": " + b.violations[0]["detail"]) if b.violations else None


def inconclusive(counters, sigs, tier):
    p = counters.get("presentations", {})
    for how in PRES:
        if p.get("pandas:" + how, 0) < 20:
            return f"presentation {how} exercised {p.get('pandas:' + how, 0)} times on Pandas"
    for be in ("sqlite", "polars"):
        if p.get(be + ":permuted", 0) < 50:
            return f"{be} compared on permuted inputs only {p.get(be + ':permuted', 0)} times"
    if counters.get("sortedness_checked", {}).get("pandas", 0) < 50 or counters.get("limits_checked", {}).get("pandas", 0) < 20:
        return "too few final order_rows / limits"
    if counters.get("record_presentations", {}).get("pandas:permuted", 0) < 10:
        return "too few convert_records cases"
    return None
