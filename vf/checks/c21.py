"""C21 — solution helpers compute what their documentation promises, on Pandas and on SQLite.

Each helper's pipeline is built by the real function in data_algebra.solutions and evaluated on Pandas and (as SQL) on
SQLite; the result is compared with a from-scratch reference:
  rank_to_average               mean 1-based position of the row's tie group within its partition
  last_observed_carried_forward latest earlier non-missing value in partition order (other columns untouched)
  replicate_rows_query          each row exactly `count` times, numbered 0..count-1 (counts 1..max_count)
  def_multi_column_map          every listed column mapped through (column name, value) -> mapped value; unmapped ->
                                null / coalesce value; optional renaming; other columns dropped, row keys kept
"""
import json

from vf import backends, monitors
from vf.compare import frames_match
from vf.util import Batch, exc_str, time_limit, CaseTimeout

PID = "C21"
LEVEL = "exploration"
RULE = (
    "per helper random valid inputs: rank_to_average (0-2 partition columns, 1-2 order columns with ties, 0-10 rows), "
    "last_observed_carried_forward (leading / trailing / all-missing runs, several partitions, a second nullable "
    "column that must stay untouched), replicate_rows_query (counts 1..max_count incl. 1, powers of two and "
    "max_count itself, max_count in 1..9), def_multi_column_map (1-3 mapped columns, unmapped and null values, "
    "coalesce value, renaming); non-trivial = a tie / a missing value with an earlier observation / two distinct "
    "counts / an unmapped value is present; distinct = distinct (helper, shape features, backends)"
)
ASSUMPTIONS = ["the four from-scratch references in this file", "order columns are null-free and, for locf, total within a partition"]

N = {"quick": 1000, "thorough": 40000}
NB = {"quick": 16, "thorough": 64}
HELPERS = ["rank_to_average", "locf", "replicate", "multi_map"]
F_SINGLE = "multi-column-map-refuses-a-single-column"


def plan(tier):
    return {"batches": NB[tier], "batch_timeout_s": 3000}


def frame(cols, rows):
    import pandas

    return pandas.DataFrame({c: [r[i] for r in rows] for i, c in enumerate(cols)}, columns=cols)


def run_both(b, ops, frames, want, case, helper, sq, ordered=False, post=None):
    """compare Pandas and SQLite results of ops with the reference frame; returns set of backends that agreed"""
    ok = set()
    for be in ("pandas", "sqlite"):
        try:
            got = backends.run_pandas(ops, frames) if be == "pandas" else sq.run(ops, frames)
        except Exception as ex:
            b.violation("helper-raised", f"{helper} on {be}: {exc_str(ex)[:400]}", case=dict(case, backend=be))
            continue
        b.count("comparisons", helper + ":" + be)
        if post is not None:
            got = post(got)
        m = frames_match(want, got)
        if m:
            b.violation("helper-result-wrong", f"{helper} on {be}: {m}\ncase: {json.dumps(case)[:900]}", case=dict(case, backend=be))
            continue
        ok.add(be)
    return ok


# ------------------------------------------------------------------ rank_to_average
def case_rank(rng):
    n = rng.choice([0, 1, 2, 4, 6, 10])
    # a missing partition key is a partition of its own (as a null group key is a group)
    pnull = rng.choice([0, 0, 0.3])
    # a passenger column, sometimes named like the helper's own scratch / default result columns
    extra = rng.choice(["uid", "uid", "rank_tie_breaker", "rank"])
    rows = [[(None if rng.random() < pnull else rng.choice(["a", "b"])), rng.choice([0, 1]), rng.choice([1, 2, 3]), rng.choice([0.5, 1.5]), i]
            for i in range(n)]
    part = rng.sample(["p1", "p2"], rng.choice([0, 1, 2]))
    order = rng.sample(["o1", "o2"], rng.choice([1, 1, 2]))
    return {"helper": "rank_to_average", "cols": ["p1", "p2", "o1", "o2", extra], "rows": rows, "partition": part, "order": order}


def judge_rank(b, case, sq):
    import data_algebra.solutions as sol
    from data_algebra.view_representations import TableDescription

    cols, rows = case["cols"], case["rows"]
    ci = {c: i for i, c in enumerate(cols)}
    parts = {}
    for r in rows:
        parts.setdefault(tuple(r[ci[p]] for p in case["partition"]), []).append(r)
    want_rows = []
    ties = False
    for members in parts.values():
        keys = sorted({tuple(r[ci[o]] for o in case["order"]) for r in members})
        pos = 0
        rank_of = {}
        for k in keys:
            cnt = sum(1 for r in members if tuple(r[ci[o]] for o in case["order"]) == k)
            rank_of[k] = (2 * pos + cnt + 1) / 2.0   # mean of positions pos+1 .. pos+cnt
            ties = ties or cnt > 1
            pos += cnt
        for r in members:
            want_rows.append(list(r) + [rank_of[tuple(r[ci[o]] for o in case["order"])]])
    want = frame(cols + ["rk"], want_rows)
    d = TableDescription(table_name="d", column_names=cols)
    try:
        ops = sol.rank_to_average(d, order_by=case["order"], partition_by=case["partition"] or None, rank_column_name="rk")
    except AssertionError:
        if cols[-1] == "rank_tie_breaker":
            # an input column named like the helper's scratch column is refused when the pipeline is built: an explicit
            # refusal, not a wrong result (the alternative, accepting it, must then keep the column: judged below)
            b.count("rank_scratch_name_refused_at_build")
            return {"pandas", "sqlite"}, ("scratch-name-refused",)
        raise
    ok = run_both(b, ops, {"d": frame(cols, rows)}, want, case, "rank_to_average", sq)
    null_part = any(r[ci[p]] is None for r in rows for p in case["partition"])
    return ok, ("ties" if ties else "no-ties", f"p{len(case['partition'])}", f"o{len(case['order'])}",
                "null-partition-key" if null_part else "-", cols[-1])


# ------------------------------------------------------------------ last_observed_carried_forward
def case_locf(rng):
    n = rng.choice([0, 1, 3, 5, 8, 12])
    pattern = rng.choice(["random", "leading", "trailing", "all-missing", "none-missing"])
    rows = []
    for i in range(n):
        if pattern == "random":
            v = None if rng.random() < 0.45 else rng.choice([1.0, 2.0, 3.5, -4.0])
        elif pattern == "leading":
            v = None if i < n // 2 else float(i)
        elif pattern == "trailing":
            v = float(i) if i < n // 2 else None
        elif pattern == "all-missing":
            v = None
        else:
            v = float(i)
        rows.append([rng.choice(["a", "b", "c"]), i, v, (None if rng.random() < 0.4 else rng.choice([10.0, 20.0]))])
    if rng.random() < 0.2:
        for r in rows:
            if rng.random() < 0.3:
                r[0] = None   # a missing partition key: a partition of its own
    rng.shuffle(rows)
    return {"helper": "locf", "cols": ["p", "t", "v", "other"], "rows": rows, "partition": rng.choice([[], ["p"]]), "pattern": pattern}


def judge_locf(b, case, sq):
    import data_algebra.solutions as sol
    from data_algebra.view_representations import TableDescription

    cols, rows = case["cols"], case["rows"]
    parts = {}
    for r in rows:
        parts.setdefault(tuple([r[0]] if case["partition"] else []), []).append(r)
    want_rows = []
    filled = False
    for members in parts.values():
        cur = None
        for r in sorted(members, key=lambda r: r[1]):
            v = r[2]
            if v is not None:
                cur = v
            else:
                if cur is not None:
                    filled = True
                v = cur
            want_rows.append([r[0], r[1], v, r[3]])
    # Rows whose partition key is missing: the helper numbers them as a partition of their own (window semantics) but
    # fetches the carried value with an equi-join, which never matches a missing key, so they stay unfilled on both
    # engines.  Whether a missing partition key is a "valid input" of this helper is not settled by its documentation:
    # such rows are generated (they must not disturb the other partitions) but their own values are not judged.
    post = None
    if case["partition"] and any(r[0] is None for r in rows):
        want_rows = [r for r in want_rows if r[0] is not None]
        post = lambda df: df[df["p"].notna()].reset_index(drop=True)  # noqa: E731
        b.count("locf_null_partition_rows_not_judged")
    want = frame(cols, want_rows)
    d = TableDescription(table_name="d", column_names=cols)
    ops = sol.last_observed_carried_forward(d, order_by=["t"], partition_by=case["partition"] or None, value_column_name="v")
    # the helper may keep helper columns out: compare on the documented columns only
    ops = ops.select_columns(cols)
    ok = run_both(b, ops, {"d": frame(cols, rows)}, want, case, "last_observed_carried_forward", sq, post=post)
    return ok, (case["pattern"], "filled" if filled else "nothing-to-fill", f"p{len(case['partition'])}")


# ------------------------------------------------------------------ replicate_rows_query
def case_replicate(rng):
    max_count = rng.choice([1, 2, 3, 4, 5, 7, 8, 9])
    n = rng.choice([0, 1, 3, 5])
    pool = [1, max_count, max_count, 2 ** int(max_count).bit_length() // 2 or 1] + list(range(1, max_count + 1))
    rows = [[f"r{i}", rng.choice([c for c in pool if 1 <= c <= max_count])] for i in range(n)]
    return {"helper": "replicate", "cols": ["id", "cnt"], "rows": rows, "max_count": max_count}


def judge_replicate(b, case, sq):
    import data_algebra.solutions as sol
    from data_algebra.view_representations import TableDescription

    cols, rows = case["cols"], case["rows"]
    want_rows = [[r[0], r[1], s] for r in rows for s in range(r[1])]
    want = frame(cols + ["seq"], want_rows)
    d = TableDescription(table_name="d", column_names=cols)
    ops, jt = sol.replicate_rows_query(d, count_column_name="cnt", seq_column_name="seq", join_temp_name="jtab",
                                       max_count=case["max_count"])
    ok = run_both(b, ops, {"d": frame(cols, rows), "jtab": jt}, want, case, "replicate_rows_query", sq)
    counts = {r[1] for r in rows}
    return ok, (f"max{case['max_count']}", "pow2-at-max" if (case["max_count"] in counts and case["max_count"] & (case["max_count"] - 1) == 0) else "-",
                "distinct-counts" if len(counts) >= 2 else "one-count")


# ------------------------------------------------------------------ def_multi_column_map
def case_multi_map(rng):
    ncols = rng.choice([1, 2, 3])
    # column names in no particular (in particular: not alphabetical) order
    mapcols = rng.sample(["size", "color", "c0", "Zed", "b1"], ncols)
    n = rng.choice([0, 1, 3, 5])
    vals = ["u", "v", "w", "zz"]
    rows = [[i] + [(None if rng.random() < 0.15 else rng.choice(vals)) for _ in mapcols] + [rng.choice([1.0, 2.0])] for i in range(n)]
    mapping = []
    for c in mapcols:
        for v in rng.sample(vals, rng.randint(1, 3)):
            mapping.append([c, v, rng.choice([10.0, 20.0, 30.0, -1.0])])
    # entries for columns that are not mapped, and for a value under another column only
    mapping.append(["not_a_column", "u", 99.0])
    return {"helper": "multi_map", "cols": ["id"] + mapcols + ["extra"], "rows": rows, "mapcols": mapcols, "mapping": mapping,
            "coalesce": rng.choice([None, None, 0.0, -5.0]), "rename": rng.random() < 0.4}


def judge_multi_map(b, case, sq):
    import data_algebra.solutions as sol
    from data_algebra.view_representations import TableDescription

    cols, rows, mapcols = case["cols"], case["rows"], case["mapcols"]
    lut = {(c, v): m for c, v, m in case["mapping"]}
    unmapped = False
    want_rows = []
    for r in rows:
        out = [r[0]]
        for j, c in enumerate(mapcols):
            v = r[1 + j]
            m = lut.get((c, v)) if v is not None else None
            if m is None:
                unmapped = True
                m = case["coalesce"]
            out.append(m)
        want_rows.append(out)
    back = ["m_" + c for c in mapcols] if case["rename"] else None
    want = frame(["id"] + (back or mapcols), want_rows)
    d = TableDescription(table_name="d", column_names=cols)
    mt = TableDescription(table_name="m", column_names=["column_name", "column_value", "mapped_value"])
    try:
        ops = sol.def_multi_column_map(d, mapping_table=mt, row_keys=["id"], cols_to_map=mapcols, coalesce_value=case["coalesce"],
                                       cols_to_map_back=back)
    except Exception as ex:
        b.violation("helper-raised", f"def_multi_column_map(cols_to_map={mapcols}) cannot be built: {exc_str(ex)[:300]}",
                    case=dict(case, backend="build"), finding_key=(F_SINGLE if len(mapcols) == 1 else None))
        return set(), ("build-raised",)
    frames = {"d": frame(cols, rows), "m": frame(["column_name", "column_value", "mapped_value"], case["mapping"])}
    ok = run_both(b, ops, frames, want, case, "def_multi_column_map", sq)
    return ok, (f"cols{len(mapcols)}", "unmapped" if unmapped else "all-mapped", "coalesce" if case["coalesce"] is not None else "-",
                "rename" if case["rename"] else "-")


GEN = {"rank_to_average": (case_rank, judge_rank), "locf": (case_locf, judge_locf), "replicate": (case_replicate, judge_replicate),
       "multi_map": (case_multi_map, judge_multi_map)}


def run_batch(seed, batch, tier):
    monitors.install()
    b = Batch(PID, seed, batch, tier)
    sq = backends.Sqlite()
    for i in range(N[tier] // NB[tier]):
        h = HELPERS[i % len(HELPERS)]
        try:
            with time_limit(60):
                case = GEN[h][0](b.rng)
                b.evaluation()
                ok, feats = GEN[h][1](b, case, sq)
                b.count("helpers", h)
                if ok:
                    b.sig(h + "|" + "|".join(feats) + "|" + ",".join(sorted(ok)))
                b.sample(case, limit=1)
        except CaseTimeout:
            b.count("case_timeout")
        except Exception as ex:
            b.count("harness_error", h + ":" + type(ex).__name__ + ":" + str(ex)[:120])
    sq.close()
    return b.result()


def replay(v):
    c = v.get("case") or {}
    h = c.get("helper")
    if h not in GEN:
        return None
    b = Batch(PID, 0, 0, "quick")
    sq = backends.Sqlite()
    try:
        GEN[h][1](b, c, sq)
    finally:
        sq.close()
    want = c.get("backend")
    for x in b.violations:
        if want is None or (x.get("case") or {}).get("backend") == want:
            return x["kind"] + ": " + x["detail"]
    return None


def w_single():
    import data_algebra.solutions as sol
    from data_algebra.view_representations import TableDescription

    d = TableDescription(table_name="d", column_names=["id", "c0"])
    mt = TableDescription(table_name="m", column_names=["column_name", "column_value", "mapped_value"])
    try:
        sol.def_multi_column_map(d, mapping_table=mt, row_keys=["id"], cols_to_map=["c0"])
    except Exception as ex:
        return "def_multi_column_map(..., cols_to_map=['c0']) raises " + exc_str(ex)[:200]
    return None


WITNESSES = {F_SINGLE: w_single}


def inconclusive(counters, sigs, tier):
    c = counters.get("comparisons", {})
    for h in ("rank_to_average", "last_observed_carried_forward", "replicate_rows_query", "def_multi_column_map"):
        for be in ("pandas", "sqlite"):
            if c.get(h + ":" + be, 0) < 20:
                return f"{h} compared on {be} only {c.get(h + ':' + be, 0)} times"
    return None
