"""C20 — data spaces behave like a keyed store of tables.

Monitor: every operation of a history is applied to the real space (DataModelSpace and
DBSpace on in-memory SQLite) and to a dict model in lock-step; after *every* operation keys()
and every retrieve() are compared with the model.
"""
import itertools

from vf.util import Batch, exc_str
from vf.compare import frames_match, frame_to_json

PID = "C20"
LEVEL = "exploration"
RULE = (
    "histories over insert(user key|auto, overwrite flag), execute(pipeline reading current entries; user key|auto; "
    "overwrite flag), remove, describe, retrieve, keys with user keys {a, b, da_temp_1, da_temp_2} (so user and "
    "automatic names coincide), bounded-exhaustive over a 14-operation core alphabet (depth 3 quick / 4 thorough) "
    "plus random histories of length <= 25, on DataModelSpace and DBSpace(SQLite), each stepped against a dict "
    "model; non-trivial = history contains an overwrite attempt, a removal or an automatic key; distinct = distinct "
    "(space, operation-name sequence)"
)
EXHAUSTIVE = {"quick": True, "thorough": True}
ASSUMPTIONS = [
    "expected value of execute() = the same pipeline evaluated by the Pandas executor on the model's current tables "
    "(pipelines are deliberately simple and null-free; translation correctness is C01's business)",
    "an automatically named operation may refuse (raise, state unchanged); only replacing an existing entry is a "
    "violation",
]

UKEYS = ["a", "b", "da_temp_1", "da_temp_2"]


def mk_table(rng, wide=False):
    import pandas

    n = rng.choice([0, 1, 2, 3])
    d = {"x": [rng.randint(0, 4) for _ in range(n)], "g": [rng.choice(["p", "q"]) for _ in range(n)]}
    if wide:
        # tables under one key do not always have the same columns: an overwrite must replace the description too
        if rng.random() < 0.35:
            d["w"] = [rng.randint(0, 9) for _ in range(n)]
        if rng.random() < 0.25:
            d["h"] = [rng.choice(["u", "v"]) for _ in range(n)]
    return pandas.DataFrame(d)


PIPES = ["extend", "select", "project", "join", "identity"]


def build_pipe(space, kind, src, src2):
    t = space.describe(src)
    if kind == "extend":
        return t.extend({"x": "x + 1"})
    if kind == "select":
        return t.select_rows("x > 1")
    if kind == "project":
        return t.project({"x": "x.max()"}, group_by=["g"])
    if kind == "identity":
        return t.extend({"x": "x * 1"})
    t2 = space.describe(src2)
    return t.natural_join(t2.project({"x": "x.min()"}, group_by=["g"]), on=["g"], jointype="inner")


def full_compare(space, model, ctx):
    try:
        ks = space.keys()
    except Exception as ex:
        return f"keys() raised {exc_str(ex)}; {ctx}"
    if set(ks) != set(model):
        return f"keys() = {sorted(ks)} but model has {sorted(model)}; {ctx}"
    for k in sorted(model):
        try:
            got = space.retrieve(k)
        except Exception as ex:
            return f"retrieve({k!r}) raised {exc_str(ex)}; {ctx}"
        m = frames_match(got, model[k])
        if m:
            return f"retrieve({k!r}) differs from model: {m}; {ctx}"
    return None


def snapshot(model):
    return {k: v.copy() for k, v in model.items()}


def step(b, spname, space, model, op, rng):
    """apply one op; returns (error, finding_key)"""
    name = op[0]
    b.count("ops", spname, name)
    ctx = f"space={spname} op={op}"
    before = snapshot(model)
    if name == "insert":
        _, key, ow, table = op
        raised = None
        ret = None
        try:
            ret = space.insert(key=key, value=table.copy(), allow_overwrite=ow)
        except Exception as ex:
            raised = ex
        if key is not None:
            must_fail = (key in model) and (not ow)
            if must_fail:
                if raised is None:
                    return f"insert over existing key with allow_overwrite=False succeeded; {ctx}", None
            else:
                if raised is not None:
                    return f"conforming insert raised {exc_str(raised)}; {ctx}", None
                model[key] = table.copy()
                if ret.table_name != key:
                    return f"insert returned description named {ret.table_name!r}; {ctx}", None
                if set(ret.column_names) != set(table.columns):
                    return (f"insert returned a description with columns {list(ret.column_names)} for a table with columns "
                            f"{list(table.columns)}; {ctx}"), None
        else:
            if raised is None:
                nk = ret.table_name
                if nk in before:
                    return (f"automatic key {nk!r} replaced an existing entry; {ctx} keys_before={sorted(before)}",
                            "auto-key-replaces-user-key")
                model[nk] = table.copy()
                b.count("auto_keys_created")
            else:
                b.count("auto_key_refused")
    elif name == "execute":
        _, key, ow, kind, src, src2 = op
        if src not in model or src2 not in model:
            b.count("execute_skipped_no_source")
            return None, None
        try:
            ops = build_pipe(space, kind, src, src2)
        except Exception as ex:
            return f"building pipeline from describe() raised {exc_str(ex)}; {ctx}", None
        try:
            expected = ops.eval({k: v.copy() for k, v in model.items()})
        except Exception as ex:
            b.count("execute_reference_raised")
            return None, None
        raised = None
        ret = None
        try:
            ret = space.execute(ops, key=key, allow_overwrite=ow)
        except Exception as ex:
            raised = ex
        reads = {src} | ({src2} if kind == "join" else set())
        if key is not None:
            must_fail = (key in model) and (not ow)
            if must_fail:
                if raised is None:
                    return f"execute over existing key with allow_overwrite=False succeeded; {ctx}", None
            else:
                if raised is not None:
                    fk = None
                    if spname == "DBSpace" and key in before and ow and key in reads:
                        fk = "dbspace-execute-overwrite-reads-target"
                    return f"conforming execute raised {exc_str(raised)}; {ctx}", fk
                model[key] = expected
                if ret.table_name != key:
                    return f"execute returned description named {ret.table_name!r}; {ctx}", None
                if set(ret.column_names) != set(expected.columns):
                    return (f"execute returned a description with columns {list(ret.column_names)} for a result with "
                            f"columns {list(expected.columns)}; {ctx}"), None
        else:
            if raised is None:
                nk = ret.table_name
                if nk in before:
                    return (f"automatic key {nk!r} replaced an existing entry; {ctx} keys_before={sorted(before)}",
                            "auto-key-replaces-user-key")
                model[nk] = expected
                b.count("auto_keys_created")
            else:
                b.count("auto_key_refused")
    elif name == "remove":
        key = op[1]
        raised = None
        try:
            space.remove(key)
        except Exception as ex:
            raised = ex
        if key in model:
            if raised is not None:
                return f"remove of existing key raised {exc_str(raised)}; {ctx}", None
            del model[key]
        elif raised is None:
            return f"remove of a missing key succeeded; {ctx}", None
    elif name == "describe":
        key = op[1]
        raised = None
        ret = None
        try:
            ret = space.describe(key)
        except Exception as ex:
            raised = ex
        if key in model:
            if raised is not None:
                return f"describe of existing key raised {exc_str(raised)}; {ctx}", None
            if ret.table_name != key or set(ret.column_names) != set(model[key].columns):
                return f"describe({key!r}) = {ret.table_name!r}{list(ret.column_names)} vs model {list(model[key].columns)}; {ctx}", None
        elif raised is None:
            return f"describe of a missing key succeeded; {ctx}", None
    elif name == "retrieve":
        key = op[1]
        if key not in model:
            try:
                space.retrieve(key)
                return f"retrieve of a missing key succeeded; {ctx}", None
            except Exception:
                pass
    err = full_compare(space, model, ctx)
    if err:
        fk = None
        if name in ("insert", "execute") and op[1] is None:
            fk = "auto-key-replaces-user-key"
        return err, fk
    return None, None


def mk_spaces():
    import data_algebra.data_model_space as dms
    import data_algebra.db_space as dbs

    return [("DataModelSpace", dms.DataModelSpace), ("DBSpace", dbs.DBSpace)]


def run_history(b, spname, ctor, hist, rng):
    b.evaluation()
    space = ctor()
    model = {}
    names = []
    try:
        for i, op in enumerate(hist):
            names.append(op[0] + ("*" if (op[0] in ("insert", "execute") and op[1] is None) else ""))
            err, fk = step(b, spname, space, model, op, rng)
            if err:
                b.violation(
                    "dataspace-model-divergence",
                    f"{err}; history={[render(o) for o in hist[: i + 1]]}",
                    case={"space": spname, "history": [render(o) for o in hist[: i + 1]]},
                    finding_key=fk,
                )
                return
            b.count("state_comparisons")
    finally:
        try:
            space.close()
        except Exception:
            pass
    nontriv = any(
        (o[0] in ("insert", "execute") and (o[1] is None or o[2] is False)) or o[0] == "remove" for o in hist
    )
    if nontriv:
        b.sig(spname + "|" + ">".join(names))
    b.sample({"space": spname, "history": [render(o) for o in hist]}, limit=2)


def render(op):
    out = []
    for x in op:
        if hasattr(x, "to_dict"):
            out.append(frame_to_json(x))
        else:
            out.append(x)
    return out


def core_alphabet(rng):
    t1 = mk_table(rng)
    ops = []
    for k in ("a", "da_temp_1"):
        for ow in (True, False):
            ops.append(("insert", k, ow, t1))
    ops.append(("insert", None, True, t1))
    ops.append(("insert", None, False, t1))
    for k in ("a", "da_temp_1"):
        for ow in (True, False):
            ops.append(("execute", k, ow, "extend", "a", "a"))
    ops.append(("execute", None, False, "extend", "a", "a"))
    ops.append(("execute", None, True, "extend", "da_temp_1", "a"))
    ops.append(("remove", "a"))
    ops.append(("remove", "da_temp_1"))
    return ops


# a second user-key alphabet: leftovers named like automatic keys with one and two digit numbers (text order and
# numeric order of da_temp_9 / da_temp_10 differ)
UKEYS2 = ["a", "da_temp_9", "da_temp_10", "da_temp_11"]


def random_op(rng, ukeys=UKEYS):
    r = rng.random()
    key = rng.choice(ukeys + [None, None])
    if r < 0.3:
        return ("insert", key, rng.random() < 0.6, mk_table(rng, wide=True))
    if r < 0.65:
        return ("execute", key, rng.random() < 0.5, rng.choice(PIPES), rng.choice(ukeys), rng.choice(ukeys))
    if r < 0.8:
        return ("remove", rng.choice(ukeys))
    if r < 0.9:
        return ("describe", rng.choice(ukeys))
    return ("retrieve", rng.choice(ukeys))


NB = {"quick": 16, "thorough": 16}
DEPTH = {"quick": 3, "thorough": 4}
NR = {"quick": 600, "thorough": 12000}


def plan(tier):
    return {"batches": NB[tier], "batch_timeout_s": 3000}


def run_batch(seed, batch, tier):
    import pandas

    b = Batch(PID, seed, batch, tier)
    spaces = mk_spaces()
    import random as _r

    core = core_alphabet(_r.Random(seed + 5))
    idx = 0
    seedt = pandas.DataFrame({"x": [1, 2, 3], "g": ["p", "q", "p"]})
    for d in range(1, DEPTH[tier] + 1):
        for hist in itertools.product(core, repeat=d):
            idx += 1
            if idx % NB[tier] != batch:
                continue
            for spname, ctor in spaces:
                # every exhaustive history starts from a space that already holds 'a'
                run_history(b, spname, ctor, (("insert", "a", True, seedt),) + hist, b.rng)
                b.count("exhaustive_histories")
    for _ in range(NR[tier] // NB[tier]):
        ukeys = UKEYS if b.rng.random() < 0.7 else UKEYS2
        hist = tuple(random_op(b.rng, ukeys) for _ in range(b.rng.randint(3, 25)))
        if ukeys is UKEYS2:
            b.count("two_digit_user_key_histories")
        for spname, ctor in spaces:
            run_history(b, spname, ctor, hist, b.rng)
            b.count("random_histories")
    return b.result()


# ---- listed witnesses ---------------------------------------------------------------
def _w_auto(ctor_name):
    import pandas

    for spname, ctor in mk_spaces():
        if spname != ctor_name:
            continue
        sp = ctor()
        try:
            sp.insert(key="da_temp_1", value=pandas.DataFrame({"x": [1]}))
            r = sp.insert(value=pandas.DataFrame({"x": [2]}))
            got = sp.retrieve("da_temp_1")
            if r.table_name == "da_temp_1" or list(got["x"]) != [1]:
                return f"{spname}: insert() with an automatic key replaced the user's entry 'da_temp_1'"
        finally:
            sp.close()
    return None


def w_auto():
    return _w_auto("DataModelSpace") or _w_auto("DBSpace")


def w_db_overwrite():
    import pandas

    for spname, ctor in mk_spaces():
        if spname != "DBSpace":
            continue
        sp = ctor()
        try:
            sp.insert(key="a", value=pandas.DataFrame({"x": [1, 2]}))
            ops = sp.describe("a").extend({"x": "x + 1"})
            try:
                sp.execute(ops, key="a", allow_overwrite=True)
            except Exception as ex:
                return ("DBSpace.execute(ops reading 'a', key='a', allow_overwrite=True) raised %s and keys() is now %s"
                        % (exc_str(ex)[:120], sorted(sp.keys())))
            if sorted(sp.retrieve("a")["x"]) != [2, 3]:
                return "DBSpace.execute overwrite produced wrong contents"
        finally:
            sp.close()
    return None


WITNESSES = {"auto-key-replaces-user-key": w_auto, "dbspace-execute-overwrite-reads-target": w_db_overwrite}


def inconclusive(counters, sigs, tier):
    ops = counters.get("ops", {})
    for sp in ("DataModelSpace", "DBSpace"):
        for o in ("insert", "execute", "remove", "describe", "retrieve"):
            if ops.get(sp, {}).get(o, 0) == 0:
                return f"{sp}.{o} never exercised"
    if counters.get("auto_keys_created", 0) == 0:
        return "no automatic key was ever created"
    return None
