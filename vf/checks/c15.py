"""C15 — results do not depend on how tables and columns are named.

Metamorphic monitor.  A pipeline is built from a name map, so an injective renaming rho of its tables and columns is
applied by rebuilding: result(rho(pipeline), rho(inputs)) must equal rho(result(pipeline, inputs)) and must not raise
where the original returns - on Pandas, Polars and SQLite (each backend against its own original result).  Targets of
rho: the scratch / CTE / alias names the executors and the SQL generator use internally, SQL keywords, mixed case,
names with spaces and punctuation, and plain fresh names as the control group of the relation itself.
"""
import json

from vf import backends, monitors
from vf import build as B
from vf import diff
from vf.compare import frames_match
from vf.gen import core, recipes as R
from vf.util import Batch, exc_str, time_limit, CaseTimeout

PID = "C15"
LEVEL = "exploration"
RULE = (
    "random pipelines (depth 1-7 quick / 1-12 thorough, all operators) x 4 renamings: 1-3 table/column names mapped to "
    "internal scratch/CTE/alias names (incl. '<other column>_tmp_right_col' style derived names), SQL keywords, mixed "
    "case, names with spaces / punctuation / unicode, the rest to plain fresh names; one renaming per case is the "
    "all-plain control; non-trivial = rho maps a name to a hostile target and the backend returned on the original; "
    "distinct = distinct (operator sequence, hostile targets, backend set)"
)
ASSUMPTIONS = ["names containing the identifier quote character or NUL are not generated (excluded by the property)",
               "each backend is compared with its own result under the original names"]

N = {"quick": 700, "thorough": 30000}
NB = {"quick": 16, "thorough": 64}

INTERNAL = [
    "_data_table_temp_col", "data_algebra_temp_merge_col", "_data_algebra_temp_g", "_data_algebra_orig_index",
    "data_algebra_extend_temp_col_0", "data_algebra_project_temp_col_0", "_da_temp_one_column", "_da_extend_temp_v_column_1",
    "_da_extend_temp_partition_column", "extend_1", "extend_2", "table_reference_0", "table_reference_1", "natural_join_0",
    "join_source_left_0", "join_source_right_0", "concat_rows_1", "project_1", "select_rows_1", "order_rows_1", "rename_1",
    "convert_records_blocks_in_0", "table_values", "a", "b", "data_frame", "source_name", "table_name", "index", "level_0",
]
DERIVED = ["{c}_tmp_right_col", "{c}_da_right_tmp", "{c}_da_join_tmp_key", "{c}_da_left_tmp"]
KEYWORDS = ["select", "from", "where", "group", "order", "by", "table", "join", "left", "null", "case", "end", "and", "as", "limit", "union"]
ODD = ["Mixed Case", "lower UPPER", "a b", "x-y", "it's", "semi;colon", "per%cent", "ünï", "日本", "1st", "with.dot", "dash--dash", "q?mark",
       "back\\slash", "sp  ace", "(paren)", "[bracket]", "$dollar", "#hash", "a,b"]

import re

F_PANDAS = "pandas-scratch-column-names-capture-user-columns"
F_POLARS = "polars-scratch-column-names-capture-user-columns"
F_SQLCTE = "sql-generated-cte-name-equals-user-table-name"
PANDAS_SCRATCH = re.compile(r"^(_data_table_temp_col|_data_algebra_orig_index|data_algebra_temp_merge_col|_data_algebra_temp_g|"
                            r"data_algebra_extend_temp_col_\d+|data_algebra_project_temp_col_\d+|.*_tmp_right_col)$")
POLARS_SCRATCH = re.compile(r"^(_da_extend_temp_partition_column|_da_temp_one_column|_da_extend_temp_v_column_\d+|"
                            r".*_da_right_tmp|.*_da_left_tmp|.*_da_join_tmp_key)$")
SQL_CTE = re.compile(r"^(extend|table_reference|natural_join|join_source_left|join_source_right|concat_rows|project|select_rows|"
                     r"order_rows|rename|map_columns|select_columns|drop_columns|convert_records_blocks_in|convert_records_blocks_out)_\d+$")


def shared_join_columns(recipe, rho):
    """renamed names of the columns that both sides of some natural_join carry (the only columns for which the
    executors themselves create a suffixed helper column)"""
    out = set()
    for n in B.walk(recipe):
        if n["op"] == "natural_join":
            try:
                l = set(B.build(n["src"]).column_names)
                r = set(B.build(n["right"]).column_names)
            except Exception:
                continue
            out |= {rho.get(c, c) for c in (l & r)}
            for k in n["on"]:  # key columns get helper copies too (differently named keys)
                for c in (k if isinstance(k, (list, tuple)) else [k]):
                    out.add(rho.get(c, c))
    return out


SUFFIXES = ("_tmp_right_col", "_da_right_tmp", "_da_left_tmp", "_da_join_tmp_key")


def finding_for(backend, rho, hostile, recipe=None):
    """attribute only when a single hostile target is involved and it is one of the recorded scratch / CTE names of
    that backend (a table name for the CTE finding, a column name for the scratch-column findings); a suffixed helper
    name <col>_tmp_right_col counts only when <col> really is shared by the two sides of a join of the pipeline"""
    if len(hostile) != 1:
        return None
    h = hostile[0]
    src = [k for k, v in rho.items() if v == h]
    is_table = bool(src) and src[0].startswith("table:")
    for suf in SUFFIXES:
        if h.endswith(suf):
            if recipe is None or h[: -len(suf)] not in shared_join_columns(recipe, rho):
                return None
    if backend == "pandas" and not is_table and PANDAS_SCRATCH.match(h):
        return F_PANDAS
    if backend == "polars" and not is_table and POLARS_SCRATCH.match(h):
        return F_POLARS
    if backend == "sqlite" and is_table and SQL_CTE.match(h):
        return F_SQLCTE
    return None


def single_target_rhos(rho, hostile):
    """the renamings with exactly one of the hostile targets kept (the others fall back to plain fresh names)"""
    out = []
    for keep in hostile:
        r2 = dict(rho)
        for k, v in rho.items():
            if v in hostile and v != keep:
                r2[k] = ("tb_" + k[6:]) if k.startswith("table:") else ("n_" + k)
        out.append((r2, [keep]))
    return out


def plan(tier):
    return {"batches": NB[tier], "batch_timeout_s": 3000}


def profile(tier, rng):
    return R.Profile(allow=("null_group", "null_join", "null_cmp", "agg_allnull", "minmax_null"),
                     max_depth=7 if tier == "quick" else rng.choice([7, 12]), min_depth=1, self_join_p=0.2, pair_keys_p=0.2)


def names_of(recipe):
    cols, tabs = set(), set()
    for n in B.walk(recipe):
        op = n["op"]
        if op == "table":
            tabs.add(n["name"])
            cols |= set(n["cols"])
        elif op in ("extend", "project"):
            cols |= {c for c, _ in n["ops"]}
        elif op == "rename_columns":
            cols |= {new for new, _ in n["map"]}
        elif op == "map_columns":
            cols |= {new for _, new in n["map"] if new is not None}
        elif op == "concat_rows" and n.get("id_column"):
            cols.add(n["id_column"])
        elif op == "convert_records":
            for sp in (n["record_map"].get("blocks_in"), n["record_map"].get("blocks_out")):
                if sp:
                    nk = len(sp.get("control_table_keys") or [])
                    cols |= set(sp["control_table"]["cols"]) | set(sp.get("record_keys") or [])
                    cols |= {v for r in sp["control_table"]["rows"] for v in r[nk:]}
    return sorted(cols), sorted(tabs)


def make_rho(rng, cols, tabs, control):
    """name map in the format of vf.build (columns by name, tables as 'table:<name>'); returns (rho, hostile targets)"""
    rho = {}
    hostile = []
    used = set()
    for c in cols:
        rho[c] = "n_" + c
    for t in tabs:
        rho["table:" + t] = "tb_" + t
    if control:
        return rho, hostile
    picks = rng.sample([("col", c) for c in cols] + [("tab", t) for t in tabs], min(rng.randint(1, 3), len(cols) + len(tabs)))
    for kind, name in picks:
        r = rng.random()
        if r < 0.45:
            target = rng.choice(INTERNAL)
        elif r < 0.6 and cols:
            target = rng.choice(DERIVED).format(c=rho.get(rng.choice(cols)))
        elif r < 0.75:
            target = rng.choice(KEYWORDS)
        else:
            target = rng.choice(ODD)
        if target in used or target in rho.values():
            continue
        used.add(target)
        rho[name if kind == "col" else "table:" + name] = target
        hostile.append(target)
    return rho, hostile


def rename_frames(frames, rho):
    out = {}
    for k, f in frames.items():
        out[rho.get("table:" + k, k)] = f.rename(columns={c: rho.get(c, c) for c in f.columns})
    return out


def rename_result(res, rho):
    if hasattr(res, "rename") and not hasattr(res, "to_pandas"):
        return res.rename(columns={c: rho.get(c, c) for c in res.columns})
    return res.rename({c: rho.get(c, c) for c in res.columns})


def run_be(be, ops, frames, sq):
    if be == "pandas":
        return backends.run_pandas(ops, frames)
    if be == "polars":
        return backends.run_polars(ops, frames)
    return sq.run(ops, frames)


def judge(b, case, sq, rng, rhos=None):
    recipe = case["recipe"]
    frames = diff.used_frames(case)
    try:
        ops0 = B.build(recipe)
    except Exception as ex:
        b.count("base_build_raised", type(ex).__name__)
        return None
    base = {}
    for be in ("pandas", "polars", "sqlite"):
        try:
            base[be] = run_be(be, ops0, frames, sq)
        except Exception as ex:
            b.count("base_raised", be + ":" + type(ex).__name__)
    if "pandas" not in base:
        return None
    cols, tabs = names_of(recipe)
    fo = case.get("final_order")
    used_sigs = []
    if rhos is None:
        rhos = []
        for i in range(4):
            rho, hostile = make_rho(rng, cols, tabs, control=(i == 0))
            if len(hostile) > 1:
                # one hostile target at a time, so that a failure names its cause
                rhos.extend(single_target_rhos(rho, hostile))
            else:
                rhos.append((rho, hostile))
    cj = diff.case_json(case)
    for rho, hostile in rhos:
        tag = "control" if not hostile else "hostile"
        use_terms = B.needs_terms(recipe, rho)
        try:
            ops = B.build(recipe, nm=rho, use_terms=use_terms)
        except Exception as ex:
            b.count("renamed_build_raised", tag)
            b.violation("renamed-pipeline-rejected", f"the pipeline builds under its original names but not under {hostile or 'plain fresh names'}: "
                        f"{exc_str(ex)[:300]}\npipeline: {diff.describe(case)[-500:]}", case=dict(cj, rho=rho, hostile=hostile),
                        finding_key=finding_for("pandas", rho, hostile, recipe))
            continue
        rframes = rename_frames(frames, rho)
        for be, ref in base.items():
            b.count("renamings", be + ":" + tag)
            try:
                got = run_be(be, ops, rframes, sq)
            except Exception as ex:
                b.violation("renamed-evaluation-raises", f"{be}: evaluates under the original names, raises under the renaming "
                            f"{ {k: v for k, v in rho.items() if v in hostile} or 'to plain fresh names'}: {exc_str(ex)[:300]}\n"
                            f"pipeline: {diff.describe(case)[-600:]}", case=dict(cj, rho=rho, hostile=hostile, backend=be),
                            finding_key=finding_for(be, rho, hostile, recipe))
                continue
            want = rename_result(ref, rho)
            m = frames_match(want, got, ordered_by=[rho.get(c, c) for c in fo[0]] if fo else None)
            if m:
                from vf.checks.c19 import tied_limit

                eng = "pandas" if be in ("pandas", "sqlite") else "polars"
                if tied_limit(case, frames, eng):
                    # order_rows(limit=k) cutting through rows that tie on the order keys may keep any of them (C18);
                    # Polars' top-k picks differently from run to run, with or without a renaming
                    b.count("limit_with_ties_not_judged", be)
                    continue
                b.violation("result-depends-on-names", f"{be}: renaming { {k: v for k, v in rho.items() if v in hostile} or 'to plain fresh names'} "
                            f"changes the result beyond the renaming: {m}\npipeline: {diff.describe(case)[-600:]}",
                            case=dict(cj, rho=rho, hostile=hostile, backend=be), finding_key=finding_for(be, rho, hostile, recipe))
                continue
            if hostile:
                used_sigs.append(be + ":" + ",".join(sorted(hostile)))
    return used_sigs


def run_batch(seed, batch, tier):
    monitors.install()
    b = Batch(PID, seed, batch, tier)
    sq = backends.Sqlite()
    gl = {}
    for i in range(N[tier] // NB[tier]):
        monitors.OBS.reset_case()
        try:
            with time_limit(90):
                case, st = diff.new_case(b.rng, profile(tier, b.rng), tier, gl)
                if case["recipe"]["op"] == "table":
                    continue
                b.evaluation()
                sigs = judge(b, case, sq, b.rng)
                for o in B.op_sequence(case["recipe"]):
                    b.count("operators", o)
                for s_ in sigs or []:
                    b.sig(">".join(B.op_sequence(case["recipe"])) + "|" + s_)
                    for h in s_.split(":", 1)[1].split(","):
                        b.count("hostile_targets_held", h)
                b.sample({"pipeline": diff.describe(case)[-400:]}, limit=1)
        except CaseTimeout:
            b.count("case_timeout")
        except Exception as ex:
            b.count("harness_error", type(ex).__name__ + ":" + str(ex)[:120])
    sq.close()
    return b.result()


def replay(v):
    import random

    c = v.get("case") or {}
    if "recipe" not in c or "rho" not in c:
        return None
    b = Batch(PID, 0, 0, "quick")
    sq = backends.Sqlite()
    try:
        judge(b, c, sq, random.Random(0), rhos=[(c["rho"], c.get("hostile") or [])])
    finally:
        sq.close()
    want = c.get("backend")
    for x in b.violations:
        if want is None or (x.get("case") or {}).get("backend") in (None, want):
            return x["kind"] + ": " + x["detail"]
    return None


def _rename_witness(cols, rows, build, rho, backend):
    """None if renaming changes nothing beyond the names, else a description"""
    import pandas

    d = pandas.DataFrame({c: [r[i] for r in rows] for i, c in enumerate(cols)})
    from data_algebra.view_representations import TableDescription

    sq = backends.Sqlite()
    try:
        t0 = TableDescription(table_name="d", column_names=cols)
        ref = run_be(backend, build(t0, {c: c for c in cols}), {"d": d}, sq)
        tn = rho.get("table:d", "d")
        t1 = TableDescription(table_name=tn, column_names=[rho.get(c, c) for c in cols])
        try:
            got = run_be(backend, build(t1, {c: rho.get(c, c) for c in cols}), {tn: d.rename(columns=rho)}, sq)
        except Exception as ex:
            return f"{backend}: raises under the renaming {rho}: {exc_str(ex)[:160]}"
        m = frames_match(rename_result(ref, rho), got)
        return None if m is None else f"{backend}: renaming {rho}: {m}"
    finally:
        sq.close()


WITNESSES = {
    F_PANDAS: lambda: _rename_witness(["g", "x"], [["a", 1.0], ["a", 2.0], ["b", 3.0]],
                                      lambda t, n: t.project({"mx": f"{n['x']}.max()"}, group_by=[n["g"]]),
                                      {"x": "_data_table_temp_col"}, "pandas"),
    F_POLARS: lambda: _rename_witness(["g", "x"], [["a", 1.0], ["a", 2.0], ["b", 3.0]],
                                      lambda t, n: t.extend({"sz": "_size()"}, partition_by=[n["g"]]),
                                      {"x": "_da_extend_temp_partition_column"}, "polars"),
    F_SQLCTE: lambda: _rename_witness(["g", "x"], [["a", 1.0], ["a", 2.0], ["b", 3.0]],
                                      lambda t, n: t.extend({"y": f"{n['x']} + 1"}).extend({"z": "y.sum()"}, partition_by=[n["g"]]),
                                      {"table:d": "extend_1"}, "sqlite"),
}


def inconclusive(counters, sigs, tier):
    r = counters.get("renamings", {})
    for be in ("pandas", "polars", "sqlite"):
        if r.get(be + ":hostile", 0) < 100 or r.get(be + ":control", 0) < 50:
            return f"{be}: hostile/control renamings {r.get(be + ':hostile', 0)}/{r.get(be + ':control', 0)}"
    return None
