"""C04 — SQL formatting and optimisation options never change query results.

Metamorphic monitor: for each pipeline the SQL text is generated under every combination of
use_with x use_cte_elim x annotate x initial_commas (16) x extend-merge on/off (model instance
attribute), with a sampled sql_indent, for the SQLite dialect (run on SQLite) and the PostgreSQL
dialect (CTE elimination active; run on the SQLite surrogate).  Every variant must return the
same table as the plainest variant *on the same engine*, and must raise iff it raises.
Extra monitor: to_sql() must not mutate the pipeline (== and printed source before/after; generating
twice gives the same text).
"""
import itertools
import re

from vf import backends, monitors
from vf import build as B
from vf import diff
from vf.compare import frames_match
from vf.gen import core, recipes as R
from vf.util import Batch, exc_str, time_limit, CaseTimeout

PID = "C04"
LEVEL = "exploration"
RULE = (
    "random pipelines biased to shared sub-DAGs (self-joins with a further-extended copy, concat of two selections of "
    "one prefix) and to extend chains with different partitioning; per pipeline 32 option variants x 2 dialects are "
    "generated, executed on one engine per dialect and compared with the plainest variant; non-trivial = the "
    "variants yield >=2 distinct SQL texts after whitespace/comment normalisation and a CTE re-use or an SQL-level "
    "extend merge was observed (text with the option on differs from text with it off); distinct = distinct "
    "(operator sequence, dialect, {cte-reuse, merge} observed)"
)
ASSUMPTIONS = [
    "both sides of every comparison run on the same engine, so engine/dialect semantics cannot cause an alarm",
    "the PostgreSQL dialect is executed on the SQLite 3.40 surrogate (no PostgreSQL server in the sandbox)",
]

N = {"quick": 176, "thorough": 3200}
NB = {"quick": 16, "thorough": 64}
BOOLS = list(itertools.product([False, True], repeat=4))  # use_with, use_cte_elim, annotate, initial_commas


def plan(tier):
    return {"batches": NB[tier], "batch_timeout_s": 3400}


def profile(tier, rng):
    return R.Profile(allow=R.HAZARDS, max_depth=7 if tier == "quick" else rng.choice([6, 10, 13]), self_join_p=0.35,
                     ops={"extend": 6, "wextend": 3, "owextend": 2, "project": 2, "select_rows": 2, "select_columns": 1,
                          "drop_columns": 1, "rename_columns": 1, "map_columns": 1, "order_rows": 1, "natural_join": 3,
                          "concat_rows": 2})


def norm_sql(s):
    s = re.sub(r"--[^\n]*", "", s)
    return re.sub(r"\s+", " ", s).strip()


CORE = {(False, False, False, False), (True, False, False, False), (True, True, False, False), (True, True, True, True)}


def variants_for(model_cls, rng, full=True):
    """all 32 option variants (thorough) or the 8 core ones + 6 sampled (quick); the plain variant comes first"""
    from data_algebra.sql_format_options import SQLFormatOptions

    out = []
    extra = set(rng.sample(BOOLS, 3))
    for merges in (False, True):
        m = model_cls()
        m.allow_extend_merges = merges
        for (uw, ce, an, ic) in BOOLS:
            if not full and (uw, ce, an, ic) not in CORE and (uw, ce, an, ic) not in extra:
                continue
            indent = rng.choice([" ", "    ", "\t"])
            fo = SQLFormatOptions(use_with=uw, use_cte_elim=ce, annotate=an, initial_commas=ic, sql_indent=indent,
                                  warn_on_method_support=False, warn_on_novel_methods=False)
            out.append(((merges, uw, ce, an, ic, indent), m, fo))
    return out


def one_dialect(b, dname, engine, model_cls, ops, case, frames, full=True):
    """returns (nontrivial, flags) or None when violated/not applicable"""
    fo_key = case.get("final_order")
    base_res = None
    base_err = None
    texts = {}
    src_before = ops.to_python(pretty=False)
    engine.load(frames)
    monitors.OBS.triggers.discard("sql_zero_using")
    for key, model, fo in variants_for(model_cls, b.rng, full):
        b.count("variants", dname)
        err = None
        res = None
        try:
            sql = model.to_sql(ops, sql_format_options=fo)
            if key[1:5] == (False, False, False, False):
                sql2 = model.to_sql(ops, sql_format_options=fo)
                if sql2 != sql:
                    b.violation("to_sql-not-repeatable", f"{dname}: generating SQL twice gave different text\n{diff.describe(case)}",
                                case=diff.case_json(case, {"dialect": dname}))
                    return None
            texts[key] = sql
        except Exception as ex:
            err = "to_sql raised " + exc_str(ex)
        if err is None:
            try:
                res = engine.run_sql(sql)
            except Exception as ex:
                err = "engine: " + type(ex).__name__ + " ... " + str(ex)[-300:].replace("\n", " ")
        if key == (False, False, False, False, False, key[5]):
            base_res, base_err = res, err
            continue
        if base_res is None and base_err is None:
            continue
        if (err is None) != (base_err is None):
            fk = "sql-source-needs-no-columns" if "sql_zero_using" in monitors.OBS.triggers else None
            msg = (err or "") + (base_err or "")
            union_order = ("should come after UNION ALL" in msg) and ("concat_rows" in B.op_sequence(case["recipe"])) \
                and ("order_rows" in B.op_sequence(case["recipe"]))
            if dname == "postgresql" and not (err or "").startswith("to_sql") and not (base_err or "").startswith("to_sql") \
                    and any(t in msg for t in ("ON clause references tables to its right",)):
                # the text was generated; only the SQLite *surrogate* refused to run one of the variants ("ON clause
                # references tables to its right" for nested RIGHT JOINs, fine on PostgreSQL): excluded and counted,
                # not judged.  (An ORDER BY inside a UNION member was excluded here too until it turned out to be the
                # repository's defect in both dialects - repaired, and judged since.)
                b.count("excluded_surrogate_cannot_run_variant", dname)
                return None
            if any(t in msg for t in ("parser stack overflow", "too large", "too many", "at most")):
                # engine resource limits on the deeply nested non-WITH text: text the engine cannot parse is excluded
                b.count("excluded_engine_resource_limit", dname)
                return None
            if union_order and dname == "sqlite":
                fk = "sqlite-order-limit-in-union-member-without-with"
            b.violation("option-changes-failure",
                        f"{dname}: variant merges={key[0]} use_with={key[1]} cte_elim={key[2]} annotate={key[3]} "
                        f"initial_commas={key[4]} {'raised ' + err if err else 'returned'} while the plain variant "
                        f"{'raised ' + base_err if base_err else 'returned'}\npipeline: {diff.describe(case)}",
                        case=diff.case_json(case, {"dialect": dname, "variant": list(key)}), finding_key=fk)
            return None
        if err is None:
            m = frames_match(base_res, res, ordered_by=fo_key[0] if fo_key else None)
            if m:
                b.violation("option-changes-result",
                            f"{dname}: variant merges={key[0]} use_with={key[1]} cte_elim={key[2]} annotate={key[3]} "
                            f"initial_commas={key[4]} differs from the plain variant: {m}\npipeline: {diff.describe(case)}\n"
                            f"variant sql: {texts[key][:1500]}",
                            case=diff.case_json(case, {"dialect": dname, "variant": list(key)}))
                return None
            b.count("comparisons", dname)
    if base_err is not None:
        b.count("all_variants_raise", dname)
        return None
    # pipeline not mutated by SQL generation
    if ops.to_python(pretty=False) != src_before:
        b.violation("to_sql-mutated-pipeline", f"{dname}: printed pipeline changed after to_sql\n{src_before}",
                    case=diff.case_json(case, {"dialect": dname}))
        return None
    ntexts = len({norm_sql(t) for t in texts.values()})
    t5 = {k[:5]: norm_sql(v) for k, v in texts.items()}
    cte = any(t5.get((mg, True, True, False, False)) != t5.get((mg, True, False, False, False)) for mg in (False, True))
    mrg = t5.get((True, False, False, False, False)) != t5.get((False, False, False, False, False))
    if cte:
        b.count("cte_reuse_observed", dname)
    if mrg:
        b.count("extend_merge_observed", dname)
    if cte and mrg:
        b.count("cte_and_merge_same_query", dname)
    return (ntexts >= 2 and (cte or mrg)), f"cte={cte},merge={mrg}"


def twin_inputs_shape(case, rng, prof, gl):
    """t and a twin table t' (same columns, other rows) go through the same 1-2 steps and are concatenated / joined"""
    import copy

    t = rng.choice(case["tables"])
    t2 = copy.deepcopy(t)
    t2["name"] = t["name"] + "_twin"
    rng.shuffle(t2["rows"])
    for r in t2["rows"][: max(1, len(t2["rows"]) // 2)]:
        for j, (c, k) in enumerate(t2["cols"]):
            if k in ("i", "f") and c != "uid" and r[j] is not None:
                r[j] = r[j] + 1
    tables = [t, t2]
    g = R.Gen(rng, tables, prof, gl)
    st = g.table_state(t["name"])
    if rng.random() < 0.8:
        # the same row filter on both inputs (steps whose re-use key could forget what they read)
        r = g.step_select_rows(st)
        if r is not None:
            try:
                fr = g.apply(st, r[0])
                node = dict(r[0])
                node["src"] = st.node
                st = R.St(node, fr, st.kinds)
            except Exception:
                pass
    st = g.pipeline_state(rng.randint(0 if st.node["op"] != "table" else 1, 2), allow_binary=False, start=st)
    if st.node["op"] == "table":
        return None

    def retarget(node):
        if node["op"] == "table":
            return {"op": "table", "name": t2["name"], "cols": list(node["cols"])}
        n = dict(node)
        n["src"] = retarget(node["src"])
        return n

    other = retarget(st.node)
    idc = None if rng.random() < 0.5 else "src_twin"
    node = {"op": "concat_rows", "id_column": idc, "a_name": "a", "b_name": "b", "src": st.node, "right": other}
    try:
        B.build(node).eval({x["name"]: core.table_frame(x) for x in tables})
    except Exception:
        return None
    return {"tables": tables, "recipe": node, "final_order": None}


def two_jointypes_shape(case, st, rng, prof, gl):
    """L joined with R twice on the same keys with two different join types; the two results are concatenated"""
    g = R.Gen(rng, case["tables"], prof, gl)
    r = g.step_join(st, 2)
    if r is None:
        return None
    step, right = r
    if step["jointype"].lower() == "cross":
        return None
    jts = rng.sample(["inner", "left", "right", "full"], 2)
    a = dict(step, jointype=jts[0], src=st.node, right=right.node)
    c = dict(step, jointype=jts[1], src=st.node, right=right.node)
    node = {"op": "concat_rows", "id_column": (None if rng.random() < 0.5 else "jt_src"), "a_name": "a", "b_name": "b", "src": a, "right": c}
    try:
        fr = B.build(node).eval({x["name"]: core.table_frame(x) for x in case["tables"]})
    except Exception:
        return None
    if fr.shape[0] > 300:
        return None
    return {"tables": case["tables"], "recipe": node, "final_order": None}


def multiline_literal_shape(case, rng):
    """a string constant with a line break in an interior step (layout options re-indent the generated text, the text of a
    literal is data): a small table of notes, some of them spanning two or three lines with leading blanks, a row filter
    (or a computed flag) on one of them, and one or two more steps so that the filter is not the last step"""
    vals = ["line one\nline two", "line one\n line two", "line one\n  line two", "plain", "a\n\tb", "x\n\n y", "line one"]
    n = rng.randint(3, 7)
    rows = [[i, rng.choice(vals), rng.choice([1.0, 2.5, -3.0, 10.0]), rng.choice(["g1", "g2"])] for i in range(n)]
    lit = rng.choice([r[1] for r in rows if "\n" in r[1]] or [vals[0]])
    table = {"name": "t0", "cols": [["uid", "i"], ["note", "s"], ["x", "f"], ["g", "s"]], "rows": rows}
    node = {"op": "table", "name": "t0", "cols": ["uid", "note", "x", "g"]}
    if rng.random() < 0.6:
        node = {"op": "select_rows", "expr": ["bin", "==", ["col", "note"], ["lit", lit]], "src": node}
    else:
        node = {"op": "extend", "ops": [["is_it", ["bin", "==", ["col", "note"], ["lit", lit]]],
                                         ["tag", ["m", "if_else", ["bin", "==", ["col", "note"], ["lit", lit]], [["lit", lit], ["lit", "other"]]]]],
                "src": node}
    for _ in range(rng.randint(1, 2)):
        k = rng.choice(["extend", "project", "order"])
        if k == "extend":
            node = {"op": "extend", "ops": [["y%d" % rng.randint(0, 9), ["bin", "+", ["col", "x"], ["lit", 1]]]], "src": node}
        elif k == "project" and node["op"] != "project":
            node = {"op": "project", "ops": [["sx", ["m", "sum", ["col", "x"], []]]], "group_by": ["g"], "src": node}
        else:
            node = {"op": "order_rows", "cols": ["g"] if node["op"] == "project" else ["uid"], "reverse": [], "limit": None, "src": node}
    return {"tables": [table], "recipe": node, "final_order": None}


def run_batch(seed, batch, tier):
    import data_algebra.SQLite
    import data_algebra.PostgreSQL

    monitors.install()
    b = Batch(PID, seed, batch, tier)
    sq = backends.Sqlite()
    pg = backends.PgSurrogate()
    gl = {}
    for i in range(N[tier] // NB[tier]):
        monitors.OBS.reset_case()
        try:
            with time_limit(120):
                prof = profile(tier, b.rng)
                case, st = diff.new_case(b.rng, prof, tier, gl)
                if b.rng.random() < 0.3:
                    # a shared sub-pipeline (optionally a shared top-k) feeding two consumers that need different columns
                    from vf.checks.c10 import diamond

                    g = R.Gen(b.rng, case["tables"], prof, gl)
                    if b.rng.random() < 0.5:
                        r_ = g.step_order_rows(st)
                        if r_ is not None:
                            stp = dict(r_[0])
                            if stp.get("limit") is None:
                                stp["limit"] = max(1, st.nrows() // 2 + 1)
                            try:
                                fr = g.apply(st, stp)
                                node = dict(stp)
                                node["src"] = st.node
                                st = R.St(node, fr, st.kinds)
                            except Exception:
                                pass
                    d = diamond(g, st, b.rng)
                    if d is not None:
                        case["recipe"] = d
                        case["final_order"] = None
                        b.count("diamond_shapes")
                r_ = b.rng.random()
                if r_ < 0.12:
                    # the same steps applied to two different inputs with the same columns, then combined
                    tw = twin_inputs_shape(case, b.rng, prof, gl)
                    if tw is not None:
                        case = tw
                        b.count("twin_input_shapes")
                elif r_ < 0.24:
                    # the same two operands joined twice with different join types, then combined
                    tj = two_jointypes_shape(case, st, b.rng, prof, gl)
                    if tj is not None:
                        case = tj
                        b.count("two_jointype_shapes")
                if b.rng.random() < 0.15:
                    ml = multiline_literal_shape(case, b.rng)
                    if ml is not None:
                        case = ml
                        b.count("multiline_literal_shapes")
                ops = B.build(case["recipe"])
                ops_copy = B.build(case["recipe"])
                frames = diff.used_frames(case)
                b.evaluation()
                for dname, eng, cls in (("sqlite", sq, data_algebra.SQLite.SQLiteModel),
                                        ("postgresql", pg, data_algebra.PostgreSQL.PostgreSQLModel)):
                    r = one_dialect(b, dname, eng, cls, ops, case, frames, full=(tier == "thorough"))
                    if r is not None:
                        nt, flags = r
                        if nt:
                            b.sig(">".join(B.op_sequence(case["recipe"])) + "|" + dname + "|" + flags)
                if not (ops == ops_copy):
                    b.violation("to_sql-mutated-pipeline", f"pipeline no longer == an identical rebuild after to_sql\n{diff.describe(case)}",
                                case=diff.case_json(case))
        except CaseTimeout:
            b.count("case_timeout")
            continue
        except Exception as ex:
            b.count("harness_error", type(ex).__name__)
            continue
        monitors.drain(b, None)
        b.sample({"pipeline": diff.describe(case)}, limit=1)
    b.counters["generator"] = {k: v for k, v in gl.items() if k.startswith("step:") or k == "self_join"}
    sq.close()
    pg.close()
    return b.result()


def w_union_order():
    import pandas
    import data_algebra.SQLite
    from data_algebra.sql_format_options import SQLFormatOptions
    from data_algebra.view_representations import TableDescription

    sq = backends.Sqlite()
    try:
        d = pandas.DataFrame({"x": [3, 1, 2]})
        t = TableDescription(table_name="d", column_names=["x"])
        ops = t.order_rows(["x"], limit=2).concat_rows(t, id_column=None)
        sq.load({"d": d})
        out = {}
        for uw in (True, False):
            try:
                sq.run_sql(data_algebra.SQLite.SQLiteModel().to_sql(ops, sql_format_options=SQLFormatOptions(use_with=uw)))
                out[uw] = None
            except Exception as ex:
                out[uw] = exc_str(ex)[-90:]
        if (out[True] is None) != (out[False] is None):
            return ("SQLite dialect: order_rows(limit) as a concat_rows member runs with use_with=True but with "
                    "use_with=False fails: %s" % (out[False] or out[True]))
        return None
    finally:
        sq.close()


def w_none_key():
    import pandas
    import sqlite3
    import data_algebra.PostgreSQL
    from data_algebra.sql_format_options import SQLFormatOptions
    from data_algebra.view_representations import SQLNode

    a = SQLNode(sql=["SELECT 1 AS k, 10 AS x"], column_names=["k", "x"], view_name="va")
    c = SQLNode(sql=["SELECT 1 AS k, 20 AS x"], column_names=["k", "x"], view_name="vb")
    ops = a.concat_rows(c, id_column=None)
    m = data_algebra.PostgreSQL.PostgreSQLModel()
    res = {}
    for ce in (False, True):
        conn = sqlite3.connect(":memory:")
        res[ce] = sorted(pandas.read_sql_query(m.to_sql(ops, sql_format_options=SQLFormatOptions(use_cte_elim=ce)), conn)["x"].tolist())
        conn.close()
    if res[False] != res[True]:
        return f"concat of two different SQL nodes: x = {res[False]} without CTE elimination, {res[True]} with use_cte_elim=True"
    return None


def w_cte_label():
    import pandas
    import data_algebra.PostgreSQL
    from data_algebra.sql_format_options import SQLFormatOptions
    from data_algebra.view_representations import TableDescription

    pg = backends.PgSurrogate()
    try:
        d = pandas.DataFrame({"x": [3, 1, 2]})
        t = TableDescription(table_name="d", column_names=["x"])
        a = t.extend({"o": "_row_number()"}, partition_by=1, order_by=["x"])
        ops = a.concat_rows(a, id_column="src", a_name="left", b_name="right")
        pg.load({"d": d})
        res = {}
        for ce in (False, True):
            sql = data_algebra.PostgreSQL.PostgreSQLModel().to_sql(
                ops, sql_format_options=SQLFormatOptions(use_with=True, use_cte_elim=ce, annotate=False))
            res[ce] = pg.run_sql(sql)
        m = frames_match(res[False], res[True])
        if m:
            return "concat_rows of a shared windowed sub-pipeline with an id column: use_cte_elim=True changes the result: " + m
        return None
    finally:
        pg.close()


WITNESSES = {"sqlite-order-limit-in-union-member-without-with": w_union_order,
             "cte-reuse-ignores-terms-merged-into-step": w_cte_label,
             "cte-reuse-shared-by-all-steps-without-a-key": w_none_key}


def inconclusive(counters, sigs, tier):
    for d in ("sqlite", "postgresql"):
        if counters.get("comparisons", {}).get(d, 0) < 500:
            return f"too few comparisons on {d}"
    if counters.get("cte_reuse_observed", {}).get("postgresql", 0) < 3:
        return "CTE re-use never observed on the PostgreSQL dialect"
    if counters.get("extend_merge_observed", {}).get("sqlite", 0) < 3:
        return "SQL-level extend merge never observed"
    return None


def replay(v):
    import data_algebra.SQLite
    import data_algebra.PostgreSQL

    monitors.install()
    c = v.get("case") or {}
    if "recipe" not in c:
        return None
    b = Batch(PID, 0, 0, "quick")
    ops = B.build(c["recipe"])
    frames = diff.used_frames(c)
    for dname, eng, cls in (("sqlite", backends.Sqlite(), data_algebra.SQLite.SQLiteModel),
                            ("postgresql", backends.PgSurrogate(), data_algebra.PostgreSQL.PostgreSQLModel)):
        if c.get("dialect") in (None, dname):
            one_dialect(b, dname, eng, cls, ops, c, frames)
    return b.violations[0]["detail"] if b.violations else None
