"""C08 — results have exactly the columns the pipeline declares.

Decider: the contract installed on ViewRepresentation.eval/transform/ex (vf.monitors) for the Pandas and
Polars executors, and a direct column check on the frames read back from SQLite (SQLite dialect) and
from the PostgreSQL-dialect text run on the surrogate.  Column *order* is checked where an operator
defines it (a final select_columns).
"""
from vf import backends, monitors
from vf import build as B
from vf import diff
from vf.gen import recipes as R
from vf.util import Batch, exc_str, time_limit, CaseTimeout

PID = "C08"
LEVEL = "exploration"
RULE = (
    "random pipelines from the shared generator (extra weight on empty inputs, overwriting extends, drops/selections "
    "down to one column, joins with all columns shared) evaluated on Pandas, Polars (eager/lazy), SQLite and the "
    "PostgreSQL-dialect surrogate; every result's column set is compared with ops.column_names by the eval contract "
    "/ a direct check; non-trivial = some step adds, removes, renames or overwrites a column; distinct = distinct "
    "(operator sequence, method set, input class tags)"
)
ASSUMPTIONS = [
    "a backend that raises produced no table: raises are counted per backend, not judged here (C01/C03 judge them)",
]

N = {"quick": 1600, "thorough": 60000}
NB = {"quick": 16, "thorough": 64}


def plan(tier):
    # thorough: one extra batch runs the repository's own test suite under the contracts (vf/suite_stage.py)
    return {"batches": NB[tier] + (1 if tier == "thorough" else 0), "batch_timeout_s": 3000}


def profile(tier, rng):
    return R.Profile(allow=R.HAZARDS, max_depth=8 if tier == "quick" else rng.choice([6, 10, 14]),
                     ops={"extend": 5, "wextend": 2, "owextend": 2, "project": 2, "select_rows": 2, "select_columns": 3,
                          "drop_columns": 3, "rename_columns": 2, "map_columns": 2, "order_rows": 1, "natural_join": 2,
                          "concat_rows": 1, "convert_records": 1})


def check_cols(b, backend, got_cols, ops, case, final_select):
    want = list(ops.column_names)
    b.count("results_checked", backend)
    if set(got_cols) != set(want) or len(got_cols) != len(set(got_cols)):
        b.violation("columns-differ-from-declared",
                    f"{backend}: result columns {list(got_cols)} != declared {want}\npipeline: {diff.describe(case)}",
                    case=diff.case_json(case, {"backend": backend, "scrambled": bool(case.get("scrambled")), "wide": bool(case.get("wide"))}))
        return False
    if final_select is not None and list(got_cols) != list(final_select):
        b.violation("column-order-after-select_columns",
                    f"{backend}: result column order {list(got_cols)} != selected order {list(final_select)}\n"
                    f"pipeline: {diff.describe(case)}", case=diff.case_json(case, {"backend": backend, "scrambled": bool(case.get("scrambled")), "wide": bool(case.get("wide"))}))
        return False
    return True


def build_maybe_scrambled(case, scr, b=None):
    """build the pipeline; when scr, afterwards change every list / dict the caller handed to the builders (the
    caller's own objects): the pipeline's declared columns and its results must not follow"""
    if not scr:
        return B.build(case["recipe"])
    B.HOLD = []
    try:
        ops = B.build(case["recipe"])
        held = B.HOLD
    finally:
        B.HOLD = None
    declared0 = list(ops.column_names)
    n = B.scramble(held)
    case["scrambled"] = True
    if b is not None:
        b.count("caller_argument_containers_changed_after_build", n=n)
        b.count("scrambled_cases")
    if list(ops.column_names) != declared0:
        if b is not None:
            b.violation("declared-columns-follow-caller-list",
                        f"declared columns were {declared0}; after the caller changed the lists/dicts it had passed to the "
                        f"builders they are {list(ops.column_names)}\npipeline: {diff.describe(case)}",
                        case=diff.case_json(case, {"scrambled": True}))
        return None
    return ops


def run_batch(seed, batch, tier):
    if batch == NB[tier]:
        from vf import suite_stage

        b = Batch(PID, seed, batch, tier)
        suite_stage.run(b, PID)
        return b.result()
    monitors.install()
    b = Batch(PID, seed, batch, tier)
    sq = backends.Sqlite()
    pg = backends.PgSurrogate()
    gl = {}
    for i in range(N[tier] // NB[tier]):
        monitors.OBS.reset_case()
        try:
            with time_limit(30):
                nps = (0, 0, 0.2, 0.6) if b.rng.random() < 0.8 else (1, 0.6, 0)
                case, st = diff.new_case(b.rng, profile(tier, b.rng), tier, gl, null_ps=nps)
                if b.rng.random() < 0.05:
                    # the shortest pipelines: one row-ordering step directly over a table (the SQL for it names no term)
                    t0 = case["tables"][0]
                    cols0 = [c for c, _ in t0["cols"]]
                    case["recipe"] = {"op": "order_rows", "cols": [b.rng.choice(cols0)], "reverse": [],
                                      "limit": b.rng.choice([None, 2]),
                                      "src": {"op": "table", "name": t0["name"], "cols": cols0}}
                    case["final_order"] = None
                    b.count("order_rows_directly_over_a_table")
                scr = b.rng.random() < 0.35
                ops = build_maybe_scrambled(case, scr, b)
                if ops is None:
                    continue
                frames = diff.used_frames(case)
                if b.rng.random() < 0.3:
                    # the caller's frame / the physical table has a column its table description does not list
                    frames = {k: v.assign(zz_not_declared=7) for k, v in frames.items()}
                    case["wide"] = True
                    b.count("inputs_wider_than_description")
                b.evaluation()
                final_select = case["recipe"]["cols"] if case["recipe"]["op"] == "select_columns" else None
                ok = True
                # Pandas (contract observes)
                try:
                    r = backends.run_pandas(ops, frames)
                    ok &= check_cols(b, "pandas", list(r.columns), ops, case, final_select)
                except Exception as ex:
                    b.count("raised", "pandas:" + type(ex).__name__)
                for lazy, eager in ((False, False), (True, False), (False, True)):
                    try:
                        r = backends.run_polars(ops, frames, lazy=lazy, eager_model=eager)
                        ok &= check_cols(b, "polars-eager-model" if eager else ("polars-lazy" if lazy else "polars"),
                                         list(r.columns), ops, case, final_select)
                    except Exception as ex:
                        b.count("raised", "polars:" + type(ex).__name__)
                try:
                    r = sq.run(ops, frames)
                    ok &= check_cols(b, "sqlite", list(r.columns), ops, case, final_select)
                except Exception as ex:
                    b.count("raised", "sqlite:" + type(ex).__name__)
                try:
                    r = pg.run(ops, frames)
                    ok &= check_cols(b, "pg-surrogate", list(r.columns), ops, case, final_select)
                except Exception as ex:
                    b.count("raised", "pg-surrogate:" + type(ex).__name__)
        except CaseTimeout:
            b.count("case_timeout")
            continue
        except Exception as ex:
            b.count("harness_error", type(ex).__name__)
            continue
        for f in monitors.drain(b, "C08"):
            ok = False
            b.violation("contract-C08", f"{f['where']}: {f['detail']}\npipeline: {diff.describe(case)}",
                        case=diff.case_json(case))
        for o in B.op_sequence(case["recipe"]):
            b.count("operators", o)
        if ok and any(o in ("extend", "project", "select_columns", "drop_columns", "rename_columns", "map_columns",
                            "natural_join", "concat_rows") for o in B.op_sequence(case["recipe"])):
            b.sig(R.signature(case["recipe"], case["tables"]))
        b.sample({"pipeline": diff.describe(case), "declared": list(ops.column_names)}, limit=1)
    b.counters["generator"] = gl
    b.counters["monitor_calls"] = dict(monitors.OBS.calls)
    sq.close()
    pg.close()
    return b.result()


def inconclusive(counters, sigs, tier):
    if tier == "thorough" and counters.get("suite_stage", {}).get("ran", 0) == 0:
        return "the repository-suite-under-monitors stage did not run: %s" % counters.get("suite_stage")
    rc = counters.get("results_checked", {})
    for be in ("pandas", "polars", "polars-lazy", "polars-eager-model", "sqlite", "pg-surrogate"):
        if rc.get(be, 0) < 50:
            return f"backend {be} produced only {rc.get(be, 0)} checked results"
    if counters.get("monitor_calls", {}).get("c08_results_checked", 0) == 0:
        return "eval contract never evaluated"
    return None


def replay(v):
    if "suite_test" in (v.get("case") or {}):
        from vf import suite_stage

        return suite_stage.replay(v, PID)
    monitors.install()
    c = v.get("case") or {}
    if "recipe" not in c:
        return None
    b = Batch(PID, 0, 0, "quick")
    ops = build_maybe_scrambled(c, bool(c.get("scrambled")), b)
    if ops is None:
        return b.violations[0]["detail"]
    frames = diff.used_frames(c)
    if c.get("wide"):
        frames = {k: f.assign(zz_not_declared=7) for k, f in frames.items()}
    final_select = c["recipe"]["cols"] if c["recipe"]["op"] == "select_columns" else None
    be = c.get("backend", "pandas")
    try:
        if be == "pandas":
            r = backends.run_pandas(ops, frames)
        elif be.startswith("polars"):
            r = backends.run_polars(ops, frames, lazy=be.endswith("lazy"), eager_model=be.endswith("eager-model"))
        elif be == "sqlite":
            r = backends.Sqlite().run(ops, frames)
        else:
            r = backends.PgSurrogate().run(ops, frames)
    except Exception as ex:
        return None
    check_cols(b, be, list(r.columns), ops, c, final_select)
    return b.violations[0]["detail"] if b.violations else None


def w_pruned_window_leaks_columns():
    import pandas
    from data_algebra.view_representations import TableDescription

    t = TableDescription(table_name="t1", column_names=["g0", "x0", "uid"])
    p = t.extend({"o1": "_row_number()"}, partition_by=["g0"], order_by=["uid"]).select_columns(["x0"]).order_rows(["x0"])
    d = pandas.DataFrame({"g0": ["a", "b"], "x0": [1.0, 2.0], "uid": [0, 1]})
    sq = backends.Sqlite()
    try:
        r = sq.run(p, {"t1": d})
    finally:
        sq.close()
    if list(r.columns) != ["x0"]:
        return ("extend(window, partition_by=['g0'], order_by=['uid']).select_columns(['x0']).order_rows(['x0']) returns "
                "columns %s on SQLite, declared ['x0']" % list(r.columns))
    return None


WITNESSES = {"sql-pruned-window-extend-leaks-window-columns": w_pruned_window_leaks_columns}
