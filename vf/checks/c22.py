"""C22 — schema-check decorators raise exactly on schema violations.

Monitor: every decorated call is observed at its boundary (raised TypeError? returned the same
object?) and judged by a reference predicate written from the property statement.
"""
import math

from vf.util import Batch, exc_str

PID = "C22"
LEVEL = "exploration"
RULE = (
    "random specifications (None, type, example value, set of types/examples, dict of column specs of those) for "
    "3 arguments and the return value, x calls with positional/keyword/missing arguments and scalar / pandas / "
    "polars-frame values (missing/extra columns, nulls, empty, all-null, mixed object columns), with the global "
    "switch on and off; non-trivial = the specification contains a set, an example value or a nested column spec; "
    "distinct = distinct (spec shape, call shape, value classes, expected verdict)"
)
ASSUMPTIONS = [
    "null scalar arguments (None/NaN) are never passed where a type is declared: the statement only speaks of "
    "non-null values, so the verdict for them is left unspecified",
    "a value 'has' a type when isinstance() says so (bool is an int, as in Python)",
]

TYPES = [int, float, str, bool]
EXAMPLES = [1, 2.5, "a", True]


def gen_leaf(rng):
    r = rng.random()
    if r < 0.15:
        return None, "none"
    if r < 0.45:
        return rng.choice(TYPES), "type"
    if r < 0.6:
        return rng.choice(EXAMPLES), "example"
    n = rng.randint(1, 3)
    items = set()
    shape = []
    if rng.random() < 0.2:
        # the "optional argument" pattern {T, type(None)}
        items.add(type(None))
        shape.append("n")
    for _ in range(n):
        if rng.random() < 0.5:
            items.add(rng.choice(TYPES))
            shape.append("t")
        else:
            items.add(rng.choice(EXAMPLES))
            shape.append("e")
    return items, "set[" + "".join(sorted(shape)) + "]"


def gen_spec(rng):
    if rng.random() < 0.45:
        cols = {}
        shapes = []
        for c in rng.sample(["x", "y", "z"], rng.randint(1, 3)):
            cols[c], sh = gen_leaf(rng)
            shapes.append(sh)
        return cols, "cols{" + ",".join(sorted(shapes)) + "}"
    return gen_leaf(rng)


def declared_types(leaf):
    """reference reading of a leaf spec: the set of declared types, or None for 'no constraint'"""
    if leaf is None:
        return None
    if isinstance(leaf, type):
        return {leaf}
    if isinstance(leaf, (set, frozenset)):
        out = set()
        for it in leaf:
            if it is None:
                continue
            out.add(it if isinstance(it, type) else type(it))
        return out
    return {type(leaf)}


def is_null(v):
    if v is None or (isinstance(v, float) and math.isnan(v)):
        return True
    try:
        import pandas

        return v is pandas.NA or v is pandas.NaT
    except Exception:
        return False


def frame_values(d, col):
    return d[col].to_list()


def is_frame(v):
    import pandas
    import polars

    return isinstance(v, (pandas.DataFrame, polars.DataFrame))


def value_violates(spec, value):
    """True iff value violates spec (reference predicate)"""
    if spec is None:
        return False
    if isinstance(spec, dict):
        if not is_frame(value):
            return True
        cols = set(value.columns)
        for c, leaf in spec.items():
            if c not in cols:
                return True
            dt = declared_types(leaf)
            if dt is None:
                continue
            for v in frame_values(value, c):
                if is_null(v):
                    continue
                if not any(isinstance(v, t) for t in dt):
                    return True
        return False
    dt = declared_types(spec)
    if dt is None:
        return False
    return not any(isinstance(value, t) for t in dt)


def gen_scalar(rng):
    if rng.random() < 0.12:
        return None, "None"  # an argument explicitly passed as None is present, not missing
    k = rng.randint(0, 3)
    return [rng.randint(-3, 3), rng.choice([0.5, -2.0, 1e9]), rng.choice(["", "q", "é"]), rng.random() < 0.5][k], \
        ["int", "float", "str", "bool"][k]


def gen_frame(rng):
    import pandas
    import polars

    use_polars = rng.random() < 0.35
    nrows = rng.choice([0, 1, 3, 5])
    cols = rng.sample(["x", "y", "z", "w"], rng.randint(1, 4))
    data = {}
    classes = []
    for c in cols:
        kind = rng.choice(["int", "float", "str", "bool", "allnull", "mixed", "mixedeq", "mixedeq"])
        if kind in ("mixed", "mixedeq") and use_polars:
            kind = "str"
        nullp = rng.choice([0, 0, 0.4])
        vals = []
        eq_pair = rng.choice([(1, 1.0), (1.0, 1), (2, 2.0), (2.0, 2), (1, True), (True, 1), (0.0, False), (False, 0), (0, 0.0)])
        eq_cut = rng.randint(1, max(1, nrows - 1))
        for i in range(nrows):
            if kind == "allnull" or rng.random() < nullp:
                vals.append(None)
            elif kind == "int":
                vals.append(rng.randint(-5, 5))
            elif kind == "float":
                vals.append(rng.choice([0.5, -1.25, 3.0]))
            elif kind == "str":
                vals.append(rng.choice(["a", "b", ""]))
            elif kind == "bool":
                vals.append(rng.random() < 0.5)
            elif kind == "mixedeq":
                # values of different types that compare (and hash) equal: 1 == 1.0 == True, 2 == 2.0
                # (first the one type, then an equal value of another type: a scan of the distinct values misses it)
                vals.append(eq_pair[0] if i < eq_cut else (eq_pair[1] if rng.random() < 0.8 else rng.choice([1, 2.0, True])))
            else:
                vals.append(rng.choice([1, "a", 2.5]))
        if kind == "mixedeq":
            import pandas as _pd

            data[c] = _pd.Series(vals, dtype=object)
            classes.append(kind + ("?" if nullp else ""))
            continue
        data[c] = vals
        classes.append(kind + ("?" if nullp else ""))
    if use_polars:
        try:
            d = polars.DataFrame(data)
        except Exception:
            d = pandas.DataFrame(data)
            use_polars = False
    else:
        d = pandas.DataFrame(data)
        # Pandas also carries missing values as pd.NA (nullable extension dtypes) and pd.NaT (datetimes)
        if rng.random() < 0.35:
            for c, kind in zip(cols, [k.rstrip("?") for k in classes]):
                try:
                    if kind == "int":
                        d[c] = pandas.array(data[c], dtype="Int64")
                    elif kind == "str":
                        d[c] = pandas.array(data[c], dtype="string")
                    elif kind == "bool":
                        d[c] = pandas.array(data[c], dtype="boolean")
                    elif kind == "allnull" and rng.random() < 0.5:
                        d[c] = pandas.Series([pandas.NaT] * nrows, dtype="datetime64[ns]")
                except Exception:
                    pass
            classes = [k + "+NA" for k in classes]
    return d, ("pl" if use_polars else "pd") + ":" + str(min(nrows, 2)) + ":" + ",".join(sorted(classes))


def gen_value(rng, spec):
    want_frame = isinstance(spec, dict)
    if rng.random() < (0.9 if want_frame else 0.12):
        return gen_frame(rng)
    return gen_scalar(rng)


def one_case(b, ds, rng):
    specs = {}
    shapes = []
    argnames = ["a", "b", "c"]
    for k in argnames:
        if rng.random() < 0.7:
            specs[k], sh = gen_spec(rng)
            shapes.append(k + "=" + sh)
    ret_spec, rsh = gen_spec(rng) if rng.random() < 0.6 else (None, "none")
    # call shape
    values = {}
    vclasses = []
    for k in argnames:
        values[k], vc = gen_value(rng, specs.get(k))
        vclasses.append(vc)
    ret_value, rvc = gen_value(rng, ret_spec)
    mode = rng.choice(["pos", "kw", "mixed", "drop"])
    args = []
    kwargs = {}
    supplied = set()
    if mode == "pos":
        args = [values["a"], values["b"], values["c"]]
        supplied = {"a", "b", "c"}
    elif mode == "kw":
        kwargs = dict(values)
        supplied = {"a", "b", "c"}
    elif mode == "mixed":
        args = [values["a"]]
        kwargs = {"b": values["b"], "c": values["c"]}
        supplied = {"a", "b", "c"}
    else:
        dropped = rng.choice(["b", "c"])
        args = [values["a"]]
        kwargs = {k: values[k] for k in ("b", "c") if k != dropped}
        supplied = {"a", "b", "c"} - {dropped}
    switch_on = rng.random() < 0.85
    decorated_while_on = rng.random() < 0.7  # the switch is read at call time, not when the decorator is applied
    # reference verdict
    arg_bad = any((k not in supplied) or value_violates(sp, values[k]) for k, sp in specs.items())
    ret_bad = value_violates(ret_spec, ret_value)
    expect_raise = switch_on and (arg_bad or ret_bad)
    called = [0]

    def target(a, b=None, c=None):
        called[0] += 1
        return ret_value

    sw = ds.SchemaCheckSwitch()
    case = {
        "specs": repr(specs), "return_spec": repr(ret_spec), "mode": mode, "switch_on": switch_on,
        "values": {k: repr(v) for k, v in values.items()}, "return_value": repr(ret_value),
        "expect_raise": expect_raise, "decorated_while_on": decorated_while_on,
    }
    b.evaluation()
    try:
        if decorated_while_on:
            sw.on()
        else:
            sw.off()
        try:
            wrapped = ds.SchemaRaises(specs, return_spec=ret_spec)(target)
        finally:
            sw.on()
    except Exception as ex:
        b.violation("decorator-construction-raised", f"{case}: {exc_str(ex)}", case=case,
                    finding_key=classify(specs, ret_spec))
        return
    raised = None
    result = None
    try:
        if switch_on:
            sw.on()
        else:
            sw.off()
        try:
            result = wrapped(*args, **kwargs)
        except TypeError as ex:
            raised = ex
        except Exception as ex:
            raised = ex
    finally:
        sw.on()
    b.count("verdicts", "expect_raise" if expect_raise else "expect_return")
    b.count("switch", ("on" if switch_on else "off") + (",decorated-on" if decorated_while_on else ",decorated-off"))
    err = None
    if expect_raise:
        if raised is None:
            err = "violation not reported (no TypeError)"
        elif not isinstance(raised, TypeError):
            err = "raised non-TypeError: " + exc_str(raised)
        elif arg_bad and called[0] != 0:
            err = "argument violation but the function body ran"
    else:
        if raised is not None:
            err = "raised although the call conforms%s: %s" % ("" if switch_on else " (switch off)", exc_str(raised))
        elif result is not ret_value:
            err = "returned a different object than the function's own result"
    if err:
        b.violation("schema-verdict", f"{err}; case={case}", case=case, finding_key=classify(specs, ret_spec))
        return
    nontriv = any(("set" in s) or ("example" in s) or ("cols" in s) for s in shapes + [rsh])
    if nontriv:
        b.sig("%s|r=%s|%s|%s|%s|%s" % (",".join(shapes), rsh, mode, ";".join(vc.split(":")[0] for vc in vclasses),
                                      switch_on, expect_raise))
    b.sample(case, limit=3)


def has_example_in_set(spec):
    if isinstance(spec, dict):
        return any(has_example_in_set(v) for v in spec.values())
    if isinstance(spec, (set, frozenset)):
        return any(not isinstance(v, type) for v in spec)
    return False


def classify(specs, ret_spec):
    """known-finding key by mechanism: an example value inside a set specification"""
    if any(has_example_in_set(s) for s in list(specs.values()) + [ret_spec]):
        return "set-spec-with-example-value"
    return None


NB = {"quick": 8, "thorough": 16}
N = {"quick": 6000, "thorough": 300000}


def plan(tier):
    return {"batches": NB[tier], "batch_timeout_s": 1800}


def run_batch(seed, batch, tier):
    import data_algebra.data_schema as ds

    b = Batch(PID, seed, batch, tier)
    for _ in range(N[tier] // NB[tier]):
        one_case(b, ds, b.rng)
    return b.result()


def w_set_example():
    """listed witness: {1, str} must accept 'a' and 2, reject 2.5"""
    import data_algebra.data_schema as ds

    @ds.SchemaRaises({"a": {1, str}})
    def f(a):
        return a

    try:
        f("x")
        f(2)
    except TypeError as ex:
        return "spec {1, str}: conforming value rejected: " + exc_str(ex)
    try:
        f(2.5)
    except TypeError:
        return None
    return "spec {1, str}: 2.5 accepted"


WITNESSES = {"set-spec-with-example-value": w_set_example}


def inconclusive(counters, sigs, tier):
    v = counters.get("verdicts", {})
    if v.get("expect_raise", 0) < 50 or v.get("expect_return", 0) < 50:
        return "verdict classes not both exercised: %s" % v
    sw = counters.get("switch", {})
    if sum(v_ for k, v_ in sw.items() if k.startswith("off")) < 20:
        return "switch-off path not exercised"
    for k in ("on,decorated-off", "on,decorated-on", "off,decorated-on"):
        if sw.get(k, 0) < 20:
            return f"switch history {k} exercised {sw.get(k, 0)} times"
    return None
