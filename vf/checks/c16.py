"""C16 — natural_join has SQL join semantics on every backend.

Single natural_join pipelines (optionally over small sub-pipelines) for every join type x key specification
(one key, two keys, differently named, mixed, empty for cross) over table pairs with duplicate keys, null keys on
either/both sides, empty sides, shared non-key columns with nulls on the left.  Two independent references must agree
first (pure-Python nested-loop join; hand-written native SQL join executed by SQLite 3.40 itself); then every backend
(Pandas, Polars, SQLite dialect with its emulated right/full joins, PostgreSQL dialect on the SQLite surrogate with
native right/full joins) must return exactly those rows.
"""
import json

from vf import backends, monitors
from vf.compare import frames_match, frame_to_json
from vf.gen import core
from vf.refjoin import ref_join, native_sql
from vf.util import Batch, exc_str, time_limit, CaseTimeout

PID = "C16"
LEVEL = "exploration"
RULE = (
    "join type in {inner,left,right,full,cross} x key spec in {one key, two keys, differently named, mixed, empty} x "
    "table pairs of 0-6 rows with duplicate keys, null keys (either/both sides), unmatched rows on each side, empty "
    "sides, a shared non-key column with nulls on the left, optional key-named non-key column on the other side, "
    "optional sub-pipelines on either side; non-trivial = a duplicate key, a null key or an unmatched row is present; "
    "distinct = distinct (join type, key spec, input feature set, backend set that returned)"
)
ASSUMPTIONS = [
    "the reference join and SQLite's own native join agree on every case before any backend is judged",
    "Polars raising is a refusal (counted), not a wrong table",
]

N = {"quick": 1500, "thorough": 60000}
NB = {"quick": 16, "thorough": 64}

F_SQLITE_FULL_NULL = "sqlite-full-join-emulation-null-keys"
F_SQLITE_FULL_PAIRED = "sqlite-full-join-refuses-differently-named-keys"


def plan(tier):
    return {"batches": NB[tier], "batch_timeout_s": 3000}


def gen_case(rng):
    spec = rng.choice(["one", "one", "two", "paired", "mixed", "cross"])
    jt = "cross" if spec == "cross" else rng.choice(["inner", "left", "right", "full"])
    nullp_l = rng.choice([0, 0, 0.25, 0.5])
    nullp_r = rng.choice([0, 0, 0.25, 0.5])
    kvals1 = ["a", "b", "c"][: rng.randint(2, 3)]
    kvals2 = [0, 1, 2][: rng.randint(2, 3)]
    nl = rng.choice([0, 1, 2, 3, 4, 5, 6])
    nr = rng.choice([0, 1, 2, 3, 4, 5, 6])
    shared = rng.random() < 0.7
    rk1 = "rk1" if spec in ("paired", "mixed") else "k1"
    lcols = [["k1", "s"], ["k2", "i"], ["a", "f"]]
    rcols = [[rk1, "s"], ["k2", "i"], ["b", "f"]]
    if shared:
        lcols.append(["c", "f"])
        rcols.append(["c", "f"])
    also = None
    if spec in ("paired", "mixed") and rng.random() < 0.15:
        also = rng.choice(["left-has-rk1", "right-has-k1"])
        if also == "left-has-rk1":
            lcols.append(["rk1", "s"])
        else:
            rcols.append(["k1", "s"])
    if spec == "one":
        # k2 is then a shared non-key column
        pass
    if spec in ("one", "paired") and rng.random() < 0.5:
        # drop k2 from one side so that it is not shared
        rcols = [c for c in rcols if c[0] != "k2"]

    def mk(cols, n, nullp):
        rows = []
        for _ in range(n):
            r = []
            for c, k in cols:
                if c in ("k1", "rk1"):
                    r.append(None if rng.random() < nullp else rng.choice(kvals1))
                elif c == "k2":
                    r.append(None if rng.random() < nullp else rng.choice(kvals2))
                elif c == "c":
                    r.append(None if rng.random() < 0.4 else rng.choice([1.0, 2.0, 3.5, -1.0]))
                else:
                    r.append(None if rng.random() < 0.15 else rng.choice([10.0, 20.0, 30.5, 0.0]))
            rows.append(r)
        if n >= 2 and rng.random() < 0.3:
            rows[1] = list(rows[0])
        return rows

    L = {"name": "L", "cols": lcols, "rows": mk(lcols, nl, nullp_l)}
    R_ = {"name": "R", "cols": rcols, "rows": mk(rcols, nr, nullp_r)}
    if spec == "one":
        on = [["k1", "k1"]]
    elif spec == "two":
        on = [["k1", "k1"], ["k2", "k2"]]
    elif spec == "paired":
        on = [["k1", "rk1"]]
    elif spec == "mixed":
        on = [["k1", "rk1"], ["k2", "k2"]]
    else:
        on = []
    if spec in ("two", "mixed") and not any(c[0] == "k2" for c in rcols):
        on = on[:1]
    wrap = {"left": rng.random() < 0.25, "right": rng.random() < 0.25, "left_order": rng.random() < 0.2,
            "right_order": rng.random() < 0.1,
            # the step after the join needs columns of one side only (row multiplicity must still be the join's)
            "after": rng.choice([None, None, None, "select-a", "count-a", "select-b", "count-b"])}
    return {"L": L, "R": R_, "on": on, "jointype": jt, "spec": spec, "also": also, "wrap": wrap}


def build(case):
    from data_algebra.view_representations import TableDescription

    l = TableDescription(table_name="L", column_names=[c for c, _ in case["L"]["cols"]])
    r = TableDescription(table_name="R", column_names=[c for c, _ in case["R"]["cols"]])
    if case["wrap"].get("left"):
        l = l.extend({"a": "a * 1"})
    if case["wrap"].get("right"):
        r = r.extend({"b": "b * 1"})
    if case["wrap"].get("left_order"):
        l = l.order_rows(["a"])  # an interior order_rows, which the builder removes
    if case["wrap"].get("right_order"):
        r = r.order_rows(["b"])
    on = case["on"]
    if all(a == b for a, b in on):
        on_arg = [a for a, b in on]
    else:
        on_arg = [(a, b) for a, b in on]
    j = l.natural_join(r, on=on_arg, jointype=case["jointype"])
    after = case["wrap"].get("after")
    if after and after[-1] in j.column_names:
        c = after[-1]
        j = j.select_columns([c]) if after.startswith("select") else j.project({"n_rows": "(1).sum()"}, group_by=[c])
    return j


def after_reference(case, want):
    """the reference join result taken through the same narrowing step"""
    after = case["wrap"].get("after")
    if not after or after[-1] not in want.columns:
        return want
    c = after[-1]
    if after.startswith("select"):
        return want[[c]].reset_index(drop=True)
    if want.shape[0] == 0:
        import pandas

        return pandas.DataFrame({c: [], "n_rows": []})
    g = want.groupby([c], dropna=False).size().reset_index(name="n_rows")
    return g


def features(case):
    f = set()
    on = case["on"]
    lc = [c for c, _ in case["L"]["cols"]]
    rc = [c for c, _ in case["R"]["cols"]]
    lk = [tuple(r[lc.index(a)] for a, b in on) for r in case["L"]["rows"]]
    rk = [tuple(r[rc.index(b)] for a, b in on) for r in case["R"]["rows"]]
    if any(any(v is None for v in k) for k in lk):
        f.add("null-key-left")
    if any(any(v is None for v in k) for k in rk):
        f.add("null-key-right")
    if len(set(lk)) < len(lk) or len(set(rk)) < len(rk):
        f.add("duplicate-keys")
    if on:
        if any(k not in set(rk) for k in lk):
            f.add("unmatched-left")
        if any(k not in set(lk) for k in rk):
            f.add("unmatched-right")
    if not case["L"]["rows"]:
        f.add("empty-left")
    if not case["R"]["rows"]:
        f.add("empty-right")
    if "c" in lc and "c" in rc:
        f.add("shared-nonkey")
        if any(r[lc.index("c")] is None for r in case["L"]["rows"]):
            f.add("shared-null-on-left")
    if case.get("also"):
        f.add(case["also"])
    return f


def rows_frame(cols, rows):
    import pandas

    return pandas.DataFrame({c: [r[i] for r in rows] for i, c in enumerate(cols)}, columns=cols)


def classify(backend, case, feats):
    """attribute a failure to a listed finding by mechanism (both are limited to the SQLite dialect's emulated FULL join)"""
    jt = case["jointype"]
    paired = any(a != b for a, b in case["on"])
    nullkey = bool(feats & {"null-key-left", "null-key-right"})
    if backend == "sqlite" and jt == "full" and paired:
        return F_SQLITE_FULL_PAIRED
    if backend == "sqlite" and jt == "full" and nullkey:
        return F_SQLITE_FULL_NULL
    return None


def judge(b, case, sq, pg, nat):
    """nat: sqlite3 connection for the native oracle.  Returns set of backends that returned the right table, or None"""
    import pandas

    lc = [c for c, _ in case["L"]["cols"]]
    rc = [c for c, _ in case["R"]["cols"]]
    frames = {"L": core.table_frame(case["L"]), "R": core.table_frame(case["R"])}
    feats = features(case)
    cols, rows = ref_join(lc, case["L"]["rows"], rc, case["R"]["rows"], case["on"], case["jointype"])
    want = rows_frame(cols, rows)
    # the two references must agree first
    cur = nat.cursor()
    for nm in ("L", "R"):
        cur.execute(f'DROP TABLE IF EXISTS "{nm}"')
        frames[nm].to_sql(name=nm, con=nat, index=False)
    sql = native_sql("L", lc, "R", rc, case["on"], case["jointype"])
    native = pandas.read_sql_query(sql, nat)
    m = frames_match(want, native)
    if m:
        b.count("references_disagree")
        if len(b.counters.setdefault("reference_disagreement_samples", [])) < 3:
            b.counters["reference_disagreement_samples"].append(m[:300])
        return None
    b.count("references_agree")
    ops = build(case)
    want = after_reference(case, want)
    if case["wrap"].get("after"):
        b.count("narrowing_step_after_join", case["wrap"]["after"])
    ok = set()
    cj = json.loads(json.dumps(case))
    for be in ("pandas", "polars", "polars-lazy", "sqlite", "pg-surrogate"):
        try:
            if be == "pandas":
                got = backends.run_pandas(ops, frames)
            elif be.startswith("polars"):
                got = backends.run_polars(ops, frames, lazy=be.endswith("lazy"))
            elif be == "sqlite":
                got = sq.run(ops, frames)
            else:
                got = pg.run(ops, frames)
        except Exception as ex:
            if be.startswith("polars"):
                b.count("polars_refusals", type(ex).__name__)
                continue
            b.violation("join-refused", f"{be}: {case['jointype']} join on {case['on']} raises {exc_str(ex)[:300]}; the standard SQL "
                        f"join has {len(rows)} rows\nL={frame_to_json(frames['L'], 8)} R={frame_to_json(frames['R'], 8)}",
                        case=dict(cj, backend=be), finding_key=classify(be, case, feats))
            continue
        b.count("comparisons", be)
        m = frames_match(want, got)
        if m:
            fk = classify(be, case, feats)
            if fk == F_SQLITE_FULL_NULL:
                # narrow attribution: the recorded defect concerns rows with a null key only - the same join over the
                # rows whose keys are all non-null must be right, otherwise this is something else
                red = json.loads(json.dumps(case))
                for side, idx in (("L", 0), ("R", 1)):
                    cn = [c for c, _ in red[side]["cols"]]
                    ki = [cn.index(p_[idx]) for p_ in red["on"]]
                    red[side]["rows"] = [r for r in red[side]["rows"] if all(r[i] is not None for i in ki)]
                rcols_, rrows_ = ref_join([c for c, _ in red["L"]["cols"]], red["L"]["rows"], [c for c, _ in red["R"]["cols"]],
                                          red["R"]["rows"], red["on"], red["jointype"])
                try:
                    rgot = sq.run(build(red), {"L": core.table_frame(red["L"]), "R": core.table_frame(red["R"])})
                    if frames_match(after_reference(red, rows_frame(rcols_, rrows_)), rgot):
                        fk = None
                except Exception:
                    fk = None
            b.violation("join-rows-differ", f"{be}: {case['jointype']} join on {case['on']}: {m}\n"
                        f"L={frame_to_json(frames['L'], 8)} R={frame_to_json(frames['R'], 8)}",
                        case=dict(cj, backend=be), finding_key=fk)
            continue
        ok.add(be)
    return ok


def run_batch(seed, batch, tier):
    import sqlite3

    monitors.install()
    b = Batch(PID, seed, batch, tier)
    sq = backends.Sqlite()
    pg = backends.PgSurrogate()
    nat = sqlite3.connect(":memory:")
    for i in range(N[tier] // NB[tier]):
        try:
            with time_limit(30):
                case = gen_case(b.rng)
                b.evaluation()
                ok = judge(b, case, sq, pg, nat)
                b.count("jointypes", case["jointype"])
                b.count("specs", case["spec"])
                feats = features(case)
                for f in feats:
                    b.count("features", f)
                if ok is not None and feats & {"duplicate-keys", "null-key-left", "null-key-right", "unmatched-left", "unmatched-right"}:
                    b.sig(f"{case['jointype']}|{case['spec']}|{','.join(sorted(feats))}|{','.join(sorted(ok))}")
                b.sample({"case": case}, limit=1)
        except CaseTimeout:
            b.count("case_timeout")
        except Exception as ex:
            b.count("harness_error", type(ex).__name__ + ":" + str(ex)[:120])
    sq.close()
    pg.close()
    nat.close()
    return b.result()


def replay(v):
    import sqlite3

    c = v.get("case") or {}
    if "L" not in c:
        return None
    b = Batch(PID, 0, 0, "quick")
    sq, pg, nat = backends.Sqlite(), backends.PgSurrogate(), sqlite3.connect(":memory:")
    try:
        judge(b, c, sq, pg, nat)
    finally:
        sq.close(); pg.close(); nat.close()
    want = c.get("backend")
    for x in b.violations:
        if want is None or (x.get("case") or {}).get("backend") == want:
            return x["kind"] + ": " + x["detail"]
    return None


def _w(case, backend):
    import sqlite3

    b = Batch(PID, 0, 0, "quick")
    sq, pg, nat = backends.Sqlite(), backends.PgSurrogate(), sqlite3.connect(":memory:")
    try:
        judge(b, case, sq, pg, nat)
    finally:
        sq.close(); pg.close(); nat.close()
    for x in b.violations:
        if (x.get("case") or {}).get("backend", "").startswith(backend):
            return x["kind"] + ": " + x["detail"][:400]
    return None


def _case(lcols, lrows, rcols, rrows, on, jt):
    return {"L": {"name": "L", "cols": lcols, "rows": lrows}, "R": {"name": "R", "cols": rcols, "rows": rrows}, "on": on,
            "jointype": jt, "spec": "w", "also": None, "wrap": {}}


W_NULL = _case([["k1", "s"], ["a", "f"]], [["a", 1.0], [None, 2.0]], [["k1", "s"], ["b", "f"]], [["a", 10.0], [None, 20.0]],
               [["k1", "k1"]], "full")
W_PAIRED = _case([["k1", "s"], ["a", "f"]], [["a", 1.0], ["b", 2.0]], [["rk1", "s"], ["b", "f"]], [["a", 10.0], ["c", 20.0]],
                 [["k1", "rk1"]], "full")
W_PAIRED_RIGHT = dict(W_PAIRED, jointype="right")
W_KEYNAME_SHARED = _case([["k1", "s"], ["a", "f"]], [["a", 1.0], ["b", 2.0]], [["rk1", "s"], ["b", "f"], ["k1", "s"]],
                         [["a", 10.0, "z"], ["c", 20.0, "y"]], [["k1", "rk1"]], "left")

WITNESSES = {
    F_SQLITE_FULL_NULL: lambda: _w(W_NULL, "sqlite"),
    F_SQLITE_FULL_PAIRED: lambda: _w(W_PAIRED, "sqlite"),
    "pandas-join-matches-null-keys": lambda: _w(W_NULL, "pandas") or _w(dict(W_NULL, jointype="inner"), "pandas"),
    "sqlite-right-join-differently-named-keys": lambda: _w(W_PAIRED_RIGHT, "sqlite"),
    "polars-full-join-right-only-keys": lambda: _w(dict(W_PAIRED, on=[["k1", "k1"]], R={"name": "R", "cols": [["k1", "s"], ["b", "f"]],
                                                                                 "rows": [["a", 10.0], ["c", 20.0]]}), "polars"),
    "pandas-join-key-name-shared-as-nonkey": lambda: _w(W_KEYNAME_SHARED, "pandas"),
}


def inconclusive(counters, sigs, tier):
    if counters.get("references_disagree", 0) > 0:
        return "the two reference joins disagree on %d cases: %s" % (counters["references_disagree"],
                                                                    counters.get("reference_disagreement_samples"))
    for be in ("pandas", "polars", "sqlite", "pg-surrogate"):
        if counters.get("comparisons", {}).get(be, 0) < 100:
            return f"backend {be} compared only {counters.get('comparisons', {}).get(be, 0)} times"
    for jt in ("inner", "left", "right", "full", "cross"):
        if counters.get("jointypes", {}).get(jt, 0) < 20:
            return f"join type {jt} generated fewer than 20 times"
    return None
