"""C19 — evaluation never modifies the caller's tables and is repeatable.

Decider: the snapshot contract installed on ViewRepresentation.eval/transform/ex (vf.monitors): every
input frame is snapshotted before the call and compared (values, dtypes, columns, index, index names,
attrs) after it.  The workload presents inputs with exotic indexes / dtypes / as views of larger frames,
on Pandas and Polars (eager, lazy), through eval(), transform(), ex() and `>>`, and evaluates twice.
"""
from vf import backends, monitors
from vf import build as B
from vf import diff
from vf.compare import frames_match
from vf.gen import recipes as R
from vf.util import Batch, exc_str, time_limit, CaseTimeout

PID = "C19"
LEVEL = "exploration"
RULE = (
    "random pipelines from the shared generator, inputs presented as: default, shuffled integer index, duplicate "
    "index labels, string index, descending RangeIndex, named index, slice (view) of a larger frame, categorical / "
    "nullable dtypes; each evaluated twice through eval()/transform()/ex()/>> on Pandas and Polars under the snapshot "
    "contract; non-trivial = the pipeline has a step that writes columns on intermediate frames (extend, project, "
    "join, concat); distinct = distinct (operator sequence, presentation, entry point)"
)
ASSUMPTIONS = ["pipelines using random numbers (_uniform) are not generated"]

N = {"quick": 1200, "thorough": 50000}
NB = {"quick": 16, "thorough": 64}
PRESENT = ["default", "shuffled", "dup-index", "str-index", "desc-range", "named-index", "view", "categorical", "nullable"]


def plan(tier):
    # thorough: one extra batch runs the repository's own test suite under the contracts (vf/suite_stage.py)
    return {"batches": NB[tier] + (1 if tier == "thorough" else 0), "batch_timeout_s": 3000}


def present(frame, how, rng):
    import pandas
    import numpy

    n = frame.shape[0]
    f = frame.copy()
    if how == "shuffled":
        idx = list(range(100, 100 + n))
        rng.shuffle(idx)
        f.index = idx
    elif how == "dup-index":
        f.index = [i // 2 for i in range(n)]
    elif how == "str-index":
        f.index = ["r%d" % (n - i) for i in range(n)]
    elif how == "desc-range":
        f.index = pandas.RangeIndex(start=n - 1, stop=-1, step=-1)
    elif how == "named-index":
        f.index = pandas.Index(list(range(5, 5 + n)), name=rng.choice(["idx", "uid", "x0"]))
    elif how == "view":
        big = pandas.concat([frame, frame, frame], ignore_index=True)
        f = big.iloc[n: 2 * n]
    elif how == "categorical":
        for c in f.columns:
            if f[c].dtype == object or str(f[c].dtype) in ("str", "string"):
                f[c] = f[c].astype("category")
                break
    elif how == "nullable":
        for c in f.columns:
            if str(f[c].dtype) == "int64":
                f[c] = f[c].astype("Int64")
                break
    return f


def record_map_phase(b, n):
    """transform() and >> applied directly to a caller's frame through a record map (cdata): the frame presented with
    every index flavour must come back unchanged, and a second application must give the same table"""
    from vf.checks import c17
    from vf.gen import records as RG
    from vf.compare import frames_match

    for _ in range(n):
        rng = b.rng
        spec = RG.gen_spec(rng)
        rows = RG.gen_rowrecs(rng, spec)
        direction = rng.choice(["rows->blocks", "blocks->rows"])
        try:
            if direction == "rows->blocks":
                m = c17.rm(blocks_out=spec)
                X = RG.to_frame(rows, RG.row_columns(spec))
            else:
                m = c17.rm(blocks_in=spec)
                X = RG.to_frame(RG.ref_unpivot(rows, spec), RG.block_columns(spec))
        except Exception:
            b.count("record_map", "spec-rejected")
            continue
        how = rng.choice(["default", "shuffled", "dup-index", "str-index", "desc-range", "named-index"])
        Xc = present(X, how, rng)
        snap = c17.snapshot(Xc)
        entry = rng.choice(["transform", "rshift"])
        b.evaluation()
        try:
            r1 = m.transform(Xc) if entry == "transform" else (Xc >> m)
            ch = c17.changed(snap, Xc)
            r2 = m.transform(Xc) if entry == "transform" else (Xc >> m)
        except Exception as ex:
            b.count("record_map", "raised:" + type(ex).__name__)
            continue
        b.count("record_map", entry + ":" + how)
        case = {"spec": spec, "rows": rows, "direction": direction, "presentation": how, "entry": entry}
        if ch:
            b.violation("input-modified", f"record map {entry} ({direction}) changed the caller's frame presented as {how}: {ch}",
                        case=case)
            continue
        mm = frames_match(r1, r2)
        if mm:
            b.violation("not-repeatable", f"record map {entry} ({direction}) applied twice: {mm}", case=case)
            continue
        b.sig(f"record-map|{direction}|{how}|{entry}")


BETWEEN = ["scramble-caller-containers", "compose", "print", "to_sql", "columns_used", "replace_leaves", "equality"]


def between_evaluations(b, ops, held, case, rng, chosen=None):
    """what a program does with a pipeline between two evaluations: it goes on using the lists / dicts it passed to
    the builders, composes the pipeline onto others, prints it, translates it, asks which columns it uses.  None of
    this may change what the pipeline computes."""
    from data_algebra.view_representations import TableDescription
    import data_algebra.SQLite

    acts = chosen if chosen is not None else [a for a in BETWEEN if rng.random() < 0.35]
    for a in acts:
        try:
            if a == "scramble-caller-containers":
                B.scramble(held)
            elif a == "compose":
                for k, td in ops.get_tables().items():
                    src = TableDescription(table_name=k + "_src", column_names=list(td.column_names))
                    (src >> ops) if len(ops.get_tables()) == 1 else ops.replace_leaves({k: src})
            elif a == "print":
                repr(ops), str(ops), ops.to_python(pretty=True)
            elif a == "to_sql":
                data_algebra.SQLite.SQLiteModel().to_sql(ops)
            elif a == "columns_used":
                ops.columns_used(), ops.methods_used()
            elif a == "replace_leaves":
                ops.replace_leaves({k: TableDescription(table_name=k, column_names=list(td.column_names))
                                    for k, td in ops.get_tables().items()})
            elif a == "equality":
                ops == B.build(case["recipe"])
        except Exception as ex:
            b.count("between_action_raised", a + ":" + type(ex).__name__)
        b.count("between_actions", a)
    return acts


def tied_limit(case, frames, engine="pandas"):
    """True if some order_rows(limit=k) of the pipeline has rows with equal order keys in its own input, as evaluated by
    the same engine (Polars and Pandas differ on null comparisons, so ties differ too)"""
    from vf.compare import to_rows

    for n in B.walk(case["recipe"]):
        if n["op"] == "order_rows" and n.get("limit") is not None:
            try:
                fr = {k: v.copy() for k, v in frames.items() if k in B.tables_of(n["src"])}
                ops = B.build(n["src"])
                src = backends.run_pandas(ops, fr) if engine == "pandas" else backends.run_polars(ops, {k: v.reset_index(drop=True) for k, v in fr.items()})
                keys = to_rows(src, list(n["cols"]))
                if len(set(keys)) < len(keys):
                    return True
            except Exception:
                return True
    return False


def run_batch(seed, batch, tier):
    if batch == NB[tier]:
        from vf import suite_stage

        b = Batch(PID, seed, batch, tier)
        suite_stage.run(b, PID)
        return b.result()
    import data_algebra
    import polars as pl

    monitors.install()
    b = Batch(PID, seed, batch, tier)
    gl = {}
    prof = lambda: R.Profile(allow=R.HAZARDS, max_depth=7 if tier == "quick" else b.rng.choice([6, 10]))
    for i in range(N[tier] // NB[tier]):
        monitors.OBS.reset_case()
        try:
            with time_limit(30):
                case, st = diff.new_case(b.rng, prof(), tier, gl)
                use_terms = b.rng.random() < 0.3
                B.HOLD = []
                try:
                    try:
                        ops = B.build(case["recipe"], use_terms=use_terms)
                    except Exception:
                        if not use_terms:
                            raise
                        use_terms = False   # not every name is expressible through the object API in the same way
                        B.HOLD = []
                        ops = B.build(case["recipe"])
                    held = B.HOLD
                finally:
                    B.HOLD = None
                base = diff.used_frames(case)
        except CaseTimeout:
            b.count("case_timeout")
            continue
        except Exception as ex:
            b.count("harness_error", type(ex).__name__)
            continue
        how = b.rng.choice(PRESENT)
        engine = b.rng.choice(["pandas", "pandas", "polars", "polars-lazy"])
        entry = b.rng.choice(["eval", "eval", "transform", "rshift", "ex"])
        if len(base) != 1 and entry in ("transform", "rshift"):
            entry = "eval"
        frames = {k: present(v, how, b.rng) for k, v in base.items()}
        if engine != "pandas":
            try:
                frames = {k: backends.to_polars(v.reset_index(drop=True), lazy=(engine == "polars-lazy")) for k, v in base.items()}
                how = "polars"
            except Exception:
                engine = "pandas"
        b.evaluation()
        results = []
        raised = None
        between = []
        try:
            with time_limit(30):
                for rep in range(2):
                    if rep == 1:
                        between = between_evaluations(b, ops, held, case, b.rng)
                    if entry == "eval":
                        r = ops.eval(frames)
                    elif entry == "transform":
                        r = ops.transform(list(frames.values())[0])
                    elif entry == "rshift":
                        r = list(frames.values())[0] >> ops
                    else:
                        if engine != "pandas":
                            r = ops.eval(frames)
                        else:
                            # ex(): tables carry their data
                            tabs = {k: data_algebra.data_ops.table(v, table_name=k) for k, v in frames.items()}
                            r = ops.replace_leaves(tabs).ex()
                    if isinstance(r, pl.LazyFrame):
                        r = r.collect()
                    results.append(r)
        except CaseTimeout:
            b.count("case_timeout")
            continue
        except Exception as ex:
            raised = ex
            b.count("raised", engine + ":" + type(ex).__name__)
            if len(results) == 1:
                b.violation("not-repeatable", f"({engine}, {how}, {entry}) the first evaluation returned, the second one (after "
                            f"{between or 'nothing'}) raised {exc_str(ex)}\npipeline: {diff.describe(case)}",
                            case=diff.case_json(case, {"presentation": how, "engine": engine, "entry": entry, "between": between,
                                                       "use_terms": use_terms}))
        b.count("runs", engine, entry)
        b.count("presentations", how)
        bad = monitors.drain(b, "C19")
        for f in bad:
            b.violation("input-modified", f"{f['where']} ({engine}, {how}, {entry}): {f['detail']}\npipeline: {diff.describe(case)}",
                        case=diff.case_json(case, {"presentation": how, "engine": engine, "entry": entry}))
        if len(results) == 2:
            # row order is part of the result only after a final order_rows (key sequence); Polars' group_by
            # returns groups in an unspecified order, which is not a difference between two *tables*
            fo = case.get("final_order")
            m = frames_match(results[0], results[1], ordered_by=fo[0] if fo else None)
            if m and tied_limit(case, base, engine):
                # which of several rows tied at the cut of order_rows(limit=k) are kept is not fixed by any property
                # (C18: "the first `limit` rows of that order"); Polars' parallel sort picks differently between runs
                b.count("limit_with_ties_not_judged", engine)
                m = None
            if m:
                b.violation("not-repeatable", f"({engine}, {how}, {entry}; between the two evaluations: {between or 'nothing'}) {m}\n"
                            f"pipeline: {diff.describe(case)}",
                            case=diff.case_json(case, {"presentation": how, "engine": engine, "entry": entry, "between": between,
                                                       "use_terms": use_terms}))
            elif not bad:
                seq = B.op_sequence(case["recipe"])
                if any(o in ("extend", "project", "natural_join", "concat_rows") for o in seq):
                    b.sig(">".join(seq) + "|" + how + "|" + engine + "|" + entry)
                b.sample({"pipeline": diff.describe(case), "presentation": how, "engine": engine, "entry": entry}, limit=1)
    record_map_phase(b, max(20, (N[tier] // NB[tier]) // 4))
    b.counters["generator"] = gl
    b.counters["monitor_calls"] = dict(monitors.OBS.calls)
    return b.result()


def inconclusive(counters, sigs, tier):
    if tier == "thorough" and counters.get("suite_stage", {}).get("ran", 0) == 0:
        return "the repository-suite-under-monitors stage did not run: %s" % counters.get("suite_stage")
    mc = counters.get("monitor_calls", {})
    checked = sum(v for k, v in mc.items() if k.startswith("c19_inputs_checked:") and not k.endswith(":0"))
    if checked < 100:
        return f"snapshot contract compared inputs only {checked} times"
    runs = counters.get("runs", {})
    for e in ("pandas", "polars", "polars-lazy"):
        if sum(runs.get(e, {}).values()) < 20:
            return f"engine {e} barely exercised"
    for ent in ("eval", "transform", "rshift", "ex"):
        if sum(r.get(ent, 0) for r in runs.values()) == 0:
            return f"entry point {ent} never exercised"
    return None


def replay(v):
    """re-runs the two evaluations of a recorded case (same engine, entry point, presentation and in-between actions)"""
    import random
    import data_algebra
    import polars as pl

    c = v.get("case") or {}
    if "suite_test" in c:
        from vf import suite_stage

        return suite_stage.replay(v, PID)
    if "recipe" not in c:
        if "spec" in c:
            b = Batch(PID, 0, 0, "quick")
            return None
        return None
    monitors.install()
    rng = random.Random(0)
    b = Batch(PID, 0, 0, "quick")
    use_terms = bool(c.get("use_terms"))
    B.HOLD = []
    try:
        ops = B.build(c["recipe"], use_terms=use_terms)
        held = B.HOLD
    finally:
        B.HOLD = None
    base = diff.used_frames(c)
    engine, entry, how = c.get("engine", "pandas"), c.get("entry", "eval"), c.get("presentation", "default")
    if engine == "pandas":
        frames = {k: present(f, how if how in PRESENT else "default", rng) for k, f in base.items()}
    else:
        frames = {k: backends.to_polars(f.reset_index(drop=True), lazy=(engine == "polars-lazy")) for k, f in base.items()}
    monitors.OBS.reset_case()
    monitors.OBS.failures = []
    results = []
    for rep in range(2):
        if rep == 1:
            between_evaluations(b, ops, held, c, rng, chosen=list(c.get("between") or []))
        try:
            if entry == "transform":
                r = ops.transform(list(frames.values())[0])
            elif entry == "rshift":
                r = list(frames.values())[0] >> ops
            elif entry == "ex" and engine == "pandas":
                r = ops.replace_leaves({k: data_algebra.data_ops.table(f, table_name=k) for k, f in frames.items()}).ex()
            else:
                r = ops.eval(frames)
        except Exception as ex:
            if rep == 1:
                return f"not-repeatable: the second evaluation raised {exc_str(ex)}"
            return None
        if isinstance(r, pl.LazyFrame):
            r = r.collect()
        results.append(r)
    bad = [f for f in monitors.OBS.failures if f["property"] == "C19"]
    if bad:
        return "input-modified: " + bad[0]["detail"]
    fo = c.get("final_order")
    m = frames_match(results[0], results[1], ordered_by=fo[0] if fo else None)
    if m and not tied_limit(c, base, engine):
        return "not-repeatable: " + m
    return None
