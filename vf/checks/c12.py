"""C12 — printed pipelines rebuild to equal pipelines with identical results; so does pickling.

Every generated pipeline p (random operators + a tail of printer-hostile steps: arbitrarily shaped expression trees,
hostile string constants, is_in lists/sets, mapv dictionaries, window options, concat labels, odd column names) is
printed four ways - to_python(), to_python(pretty=True), repr(), str() - and each text is rebuilt with the
repository's own eval_da_ops.  The rebuilt pipeline must compare equal to p (both directions), print to the same
text again, and evaluate to p's result on the inputs.  pickle.loads(pickle.dumps(p)) is judged the same way.
Half of the pipelines are built from expression *text* (through the parser), half from Term objects (around it).
"""
import pickle

from vf import monitors
from vf import build as B
from vf import diff
from vf.compare import frames_match
from vf.gen import core, hostile, recipes as R
from vf.util import Batch, exc_str, time_limit, CaseTimeout

PID = "C12"
LEVEL = "exploration"
RULE = (
    "random pipelines (depth 1-6 quick / 1-10 thorough, all operators) extended by 1-3 printer-hostile steps: extends "
    "and select_rows over arbitrarily shaped expression trees (nested unary minus, powers of negated terms and "
    "negative constants, right-nested - and /, // and %, %?% %/% %+%, comparisons and if_else/where inside arithmetic, "
    "is_in lists and sets, mapv with default), string constants with quotes/backslashes/newlines/unicode, window "
    "options (partition_by=1, reversal), concat_rows with explicit id_column/a_name/b_name variants, renames to "
    "non-identifier column names; built from text (parser) or from Term objects; non-trivial = an expression of "
    "depth >= 2 or a non-identifier string is present; distinct = distinct (operator sequence, method set, build mode)"
)
ASSUMPTIONS = ["the repository's eval_da_ops is the way printed text is turned back into a pipeline"]

N = {"quick": 1000, "thorough": 40000}
NB = {"quick": 16, "thorough": 64}


def plan(tier):
    return {"batches": NB[tier], "batch_timeout_s": 3000}


def profile(tier, rng):
    return R.Profile(allow=R.HAZARDS, max_depth=6 if tier == "quick" else rng.choice([6, 10]), min_depth=0,
                     expr_depth=2 if tier == "quick" else rng.choice([2, 3]), self_join_p=0.15, pair_keys_p=0.25)


def add_hostile_tail(g, st, rng, log):
    """append 1-3 hostile steps; each is validated on the materialised prefix (must evaluate on Pandas)"""
    for _ in range(rng.randint(1, 3)):
        numcols = [c for c in st.cols(("i", "f")) if str(c).isidentifier()]
        strcols = [c for c in st.cols(("s",)) if str(c).isidentifier()]
        kind = rng.choice(["num", "num", "num", "shared-term", "str", "sel-num", "sel-str", "window", "concat", "rename"])
        step = None
        newk = {}
        right = None
        if kind == "num" and numcols:
            ops = []
            for _ in range(rng.randint(1, 2)):
                t = g.newcol(st, "h")
                ops.append([t, hostile.num_expr(rng, numcols, 0, rng.choice([2, 3, 4]))])
                newk[t] = "f"
            step = {"op": "extend", "ops": ops}
        elif kind == "shared-term" and numcols:
            # one expression object in two roles: an assignment of its own first, then an operand of another assignment
            e = hostile.num_expr(rng, numcols, 0, rng.choice([2, 3]))
            if e[0] == "bin":
                t1, t2 = g.newcol(st, "h"), None
                st_tmp = R.St(st.node, st.frame.assign(**{t1: 0.0}), dict(st.kinds, **{t1: "f"}))
                t2 = g.newcol(st_tmp, "h")
                op2 = rng.choice(["/", "-", "*", "**"]) if rng.random() < 0.8 else "+"
                other = ["col", rng.choice(numcols)]
                e2 = ["bin", op2, other, e] if rng.random() < 0.6 else ["bin", op2, e, other]
                step = {"op": "extend", "ops": [[t1, e], [t2, e2]]}
                newk[t1] = "f"
                newk[t2] = "f"
        elif kind == "str":
            t = g.newcol(st, "hs")
            step = {"op": "extend", "ops": [[t, hostile.str_expr(rng, strcols)]]}
            newk[t] = "s"
        elif kind == "sel-num" and numcols:
            step = {"op": "select_rows", "expr": hostile.bool_expr(rng, numcols, 0, 3)}
        elif kind == "sel-str" and strcols:
            step = {"op": "select_rows", "expr": hostile.str_pred(rng, strcols)}
        elif kind == "window" and numcols:
            r = g.step_owextend(st) if rng.random() < 0.6 else g.step_wextend(st)
            if r is not None:
                step, newk = r
        elif kind == "concat":
            idc = rng.choice([None, "table_name", "source_name", "src col", g.newcol(st, "src")])
            if idc in st.frame.columns:
                idc = None
            step = {"op": "concat_rows", "id_column": idc, "a_name": rng.choice(["a", "left", "it's"] + hostile.HOSTILE_STRINGS[:3]),
                    "b_name": rng.choice(["b", "right", 'q"q'])}
            right = R.St(st.node, st.frame, st.kinds)
            if idc is not None:
                newk[idc] = "s"
        elif kind == "rename":
            cols = list(st.frame.columns)
            c = rng.choice(cols)
            new = rng.choice(["a b", "it's", 'q"q', "x-y", "select", "ünï", "1st"])
            if new not in cols:
                step = {"op": "rename_columns", "map": [[new, c]]}
        if step is None:
            continue
        try:
            fr = g.apply(st, step, right)
        except Exception as ex:
            log["hostile_step_rejected:" + kind] = log.get("hostile_step_rejected:" + kind, 0) + 1
            continue
        kinds = g.new_kinds(st, step, newk, right, fr)
        if kinds is None:
            continue
        node = dict(step)
        node["src"] = st.node
        if right is not None:
            node["right"] = right.node
        st = R.St(node, fr, kinds)
        log["hostile_step:" + kind] = log.get("hostile_step:" + kind, 0) + 1
    return st


def printings(p):
    return {
        "to_python": lambda: p.to_python(),
        "to_python-pretty": lambda: p.to_python(pretty=True),
        "repr": lambda: repr(p),
        "str": lambda: str(p),
    }


def rebuild(text):
    from data_algebra.expr_parse_fn import eval_da_ops

    return eval_da_ops(text, data_model_map=None)


def judge(p, frames_list, b, case_json, modes=None):
    """returns None when everything held, else (kind, detail)"""
    refs = []
    for fr in frames_list:
        try:
            refs.append(p.eval({k: v.copy() for k, v in fr.items()}))
        except Exception:
            refs.append(None)
    routes = dict(printings(p))
    routes["pickle"] = None
    for name, f in routes.items():
        if modes is not None and name not in modes:
            continue
        b.count("routes", name)
        text = None
        try:
            if name == "pickle":
                q = pickle.loads(pickle.dumps(p))
            else:
                text = f()
                q = rebuild(text)
        except Exception as ex:
            return ("rebuild-raised", f"route {name}: {exc_str(ex)}\ntext: {(text or '')[-900:]}", name)
        try:
            eq1 = (q == p)
            eq2 = (p == q)
        except Exception as ex:
            return ("equality-raised", f"route {name}: {exc_str(ex)}", name)
        if not eq1 or not eq2:
            return ("rebuilt-not-equal", f"route {name}: rebuilt == original is {eq1}, original == rebuilt is {eq2}\n"
                    f"original: {p.to_python(pretty=False).strip()[-800:]}\nrebuilt:  {q.to_python(pretty=False).strip()[-800:]}", name)
        if name != "pickle":
            try:
                t2 = printings(q)[name]()
            except Exception as ex:
                return ("reprint-raised", f"route {name}: {exc_str(ex)}", name)
            if t2 != text:
                return ("reprint-differs", f"route {name}: printing the rebuilt pipeline gives different text\nfirst:  {text[-500:]}\nsecond: {t2[-500:]}", name)
        for fr, ref in zip(frames_list, refs):
            if ref is None:
                continue
            try:
                got = q.eval({k: v.copy() for k, v in fr.items()})
            except Exception as ex:
                return ("rebuilt-eval-raised", f"route {name}: {exc_str(ex)}\noriginal evaluates to {ref.shape[0]} rows", name)
            m = frames_match(ref, got)
            b.count("result_comparisons")
            if m:
                return ("rebuilt-result-differs", f"route {name}: {m}\noriginal: {p.to_python(pretty=False).strip()[-700:]}\n"
                        f"rebuilt:  {q.to_python(pretty=False).strip()[-700:]}", name)
    return None


def second_input(frames, rng):
    out = {}
    for k, v in frames.items():
        if v.shape[0] >= 2:
            idx = list(range(v.shape[0]))
            rng.shuffle(idx)
            out[k] = v.iloc[idx[: max(1, len(idx) - 1)]].reset_index(drop=True)
        else:
            out[k] = v.copy()
    return out


def nontrivial(recipe):
    for n in B.walk(recipe):
        es = []
        if n["op"] in ("extend", "project"):
            es = [e for _, e in n["ops"]]
        elif n["op"] == "select_rows":
            es = [n["expr"]]
        for e in es:
            if core.expr_depth(e) >= 2:
                return True
        if n["op"] == "concat_rows" and (n.get("a_name") not in ("a", "left") or n.get("b_name") not in ("b", "right")):
            return True
        if n["op"] == "rename_columns" and any(not str(new).isidentifier() for new, _ in n["map"]):
            return True
    return False


def run_batch(seed, batch, tier):
    monitors.install()
    b = Batch(PID, seed, batch, tier)
    gl = {}
    for i in range(N[tier] // NB[tier]):
        monitors.OBS.reset_case()
        try:
            with time_limit(60):
                rng = b.rng
                prof = profile(tier, rng)
                case, st = diff.new_case(rng, prof, tier, gl)
                g = R.Gen(rng, case["tables"], prof, gl)
                st = add_hostile_tail(g, st, rng, gl)
                case["recipe"] = st.node
                if st.node["op"] == "table":
                    continue
                use_terms = rng.random() < 0.5
                if rng.random() < 0.2:
                    # schema / catalog qualified tables
                    for n_ in B.walk(case["recipe"]):
                        if n_["op"] == "table":
                            n_["qualifiers"] = rng.choice([{"schema": "s1"}, {"schema": "s 1", "catalog": "c'at"}])
                    b.count("qualified_tables")
                try:
                    p = B.build(case["recipe"], use_terms=use_terms)
                except Exception as ex:
                    b.count("build_raised", ("terms:" if use_terms else "text:") + type(ex).__name__)
                    continue
                b.evaluation()
                frames = diff.used_frames(case)
                cj = diff.case_json(case, {"use_terms": use_terms})
                r = judge(p, [frames, second_input(frames, rng)], b, cj)
                for o in B.op_sequence(case["recipe"]):
                    b.count("operators", o)
                if r is not None:
                    kind, detail, route = r
                    b.violation(kind, detail + f"\n(built from {'Term objects' if use_terms else 'expression text'})",
                                case=dict(cj, route=route))
                    continue
                if nontrivial(case["recipe"]):
                    b.sig(R.signature(case["recipe"], case["tables"], "terms" if use_terms else "text"))
                b.sample({"pipeline": p.to_python(pretty=False).strip()[-600:]}, limit=1)
        except CaseTimeout:
            b.count("case_timeout")
        except Exception as ex:
            b.count("harness_error", type(ex).__name__ + ":" + str(ex)[:100])
    b.counters["generator"] = {k: v for k, v in gl.items() if k.startswith(("step:", "hostile"))}
    return b.result()


def replay(v):
    c = v.get("case") or {}
    if "recipe" not in c:
        return None
    b = Batch(PID, 0, 0, "quick")
    p = B.build(c["recipe"], use_terms=bool(c.get("use_terms")))
    frames = diff.used_frames(c)
    r = judge(p, [frames], b, c)
    return None if r is None else r[0] + ": " + r[1]


def w_neg_pow():
    from data_algebra.view_representations import TableDescription

    t = TableDescription(table_name="d", column_names=["x"])
    p = t.extend({"y": "(-x) ** 2", "z": "(-3) ** 2"})
    q = rebuild(p.to_python())
    return None if q == p else "extend({'y': '(-x) ** 2', 'z': '(-3) ** 2'}) does not rebuild to an equal pipeline: " + q.to_python(pretty=False).strip()[-200:]


def w_cascading_merge():
    from data_algebra.view_representations import TableDescription

    t = TableDescription(table_name="d", column_names=["a", "u"])
    p = t.extend({"a": "2 - a"}).extend({"v": "a + u", "w": "u + 1"}).extend({"v": "u.sin()"})
    q = rebuild(p.to_python())
    return None if q == p else "extend(a).extend(v := f(a), w).extend(v := g(u)) does not rebuild to an equal pipeline (the builder leaves a merge undone that the rebuild performs)"


WITNESSES = {"printer-neg-under-power": w_neg_pow, "extend-merge-not-cascading": w_cascading_merge}


def inconclusive(counters, sigs, tier):
    r = counters.get("routes", {})
    for k in ("to_python", "to_python-pretty", "repr", "str", "pickle"):
        if r.get(k, 0) < 50:
            return f"route {k} exercised {r.get(k, 0)} times"
    g = counters.get("generator", {})
    for k in ("hostile_step:num", "hostile_step:str", "hostile_step:sel-num", "hostile_step:sel-str", "hostile_step:concat"):
        if g.get(k, 0) < 5:
            return f"{k} generated {g.get(k, 0)} times"
    if counters.get("result_comparisons", 0) < 100:
        return "too few result comparisons"
    return None
