"""C05 — every catalogued method behaves as documented on every backend that claims it.

For every row of the repository's own method catalog (op_catalog.methods_table) the catalog's own example expression is
evaluated - as an extend, a partitioned extend, a project or an ordered window, as the row's op_class says - over
generated frames whose argument columns take hostile vectors of the method's domain (nulls, zero, negatives, boundary
points, large magnitudes, equal arguments).  Every backend the catalog marks 'y' (Pandas, SQLite, PostgreSQL dialect on
the SQLite surrogate) and Polars whenever it does not raise must return, for every row, the value of a per-method
reference written from the method's documentation.  Cells where the documentation fixes no value are not compared.
"""
import datetime
import json
import math

from vf import backends, monitors
from vf.compare import cell_eq, norm_cell
from vf.refwin import group_fn, ordered_fn, UNSPEC
from vf.util import Batch, exc_str, time_limit, CaseTimeout

PID = "C05"
LEVEL = "exploration"
RULE = (
    "all 124 catalog rows (plus 12 compound-argument variants of catalogued methods) x their claiming backends; per (row, frame): 8-12 rows drawn from hostile pools (null, 0, "
    "negatives, +-1, 0.5 steps avoided for rounding, 1e-3, 1e6, equal arguments, empty and all-null frames, ints as "
    "row ids); scalar methods in an extend, g-class in a partitioned extend, p-class in a grouped project, w-class "
    "in an ordered window; non-trivial = the frame has a null and a boundary value in an argument column; distinct = "
    "distinct (catalog row, backend, frame class)"
)
ASSUMPTIONS = [
    "comparison / logical operators and is_in at a null operand, string operations at a null operand, rounding at exact "
    ".5, integer / // % with negative operands, arguments outside a method's domain, as_str of floats, std/var of < 2 "
    "values, sum of an all-null group, running functions at null rows, rank/cumcount/weekofyear/dayofweek/base_Sunday "
    "conventions are not fixed by the documentation and are not compared",
    "date/time methods are judged on Pandas and Polars only (the PostgreSQL surrogate has no date functions)",
]

N = {"quick": 6, "thorough": 150}   # frames per catalog row
NB = {"quick": 16, "thorough": 64}

F_FLOATMOD = "sqlite-float-modulo-is-integer-modulo"


def plan(tier):
    return {"batches": NB[tier], "batch_timeout_s": 3000}


# ------------------------------------------------------------------ references
def nprop(f, domain=None):
    def g(*a):
        if any(v is None for v in a):
            return None
        if domain is not None and not domain(*a):
            return UNSPEC
        try:
            return f(*a)
        except (ValueError, OverflowError, ZeroDivisionError):
            return UNSPEC
    return g


def cmp_ref(f):
    def g(x, y):
        if x is None or y is None:
            return UNSPEC
        return f(x, y)
    return g


def tie(v, digits=0):
    s = abs(v) * (10 ** digits)
    return abs(s - math.floor(s) - 0.5) < 1e-9


def r_round(y):
    if y is None:
        return None
    if tie(y):
        return UNSPEC
    return float(round(y))


def r_around2(y):
    if y is None:
        return None
    if tie(y, 2) or abs(y) > 1e5:
        return UNSPEC
    return round(y, 2)


def r_around(digits):
    def f(y):
        if y is None:
            return None
        if tie(y, digits) or abs(y) > 1e7:
            return UNSPEC
        return float(round(y, digits))
    return f


def sign(v):
    return (v > 0) - (v < 0)


E_REFS = {
    "x != y": (("x", "y"), cmp_ref(lambda x, y: x != y)),
    "row_id % q": (("row_id", "q"), nprop(lambda r, q: r % q)),
    "x %/% y": (("x", "y"), nprop(lambda x, y: x / y, lambda x, y: y != 0)),
    "x * y": (("x", "y"), nprop(lambda x, y: x * y)),
    "x ** y": (("x", "y"), lambda x, y: UNSPEC if (x is None or y is None) and (x == 1 or y == 0) else
               nprop(lambda x, y: x ** y, lambda x, y: x > 0 and abs(y) < 20 and abs(x) < 1e3)(x, y)),
    "x + y": (("x", "y"), nprop(lambda x, y: x + y)),
    "-x": (("x",), nprop(lambda x: -x)),
    "x - y": (("x", "y"), nprop(lambda x, y: x - y)),
    "x / y": (("x", "y"), nprop(lambda x, y: x / y, lambda x, y: y != 0)),
    "row_id // q": (("row_id", "q"), nprop(lambda r, q: r // q)),
    "x < y": (("x", "y"), cmp_ref(lambda x, y: x < y)),
    "x <= y": (("x", "y"), cmp_ref(lambda x, y: x <= y)),
    "not a": (("a",), lambda a: UNSPEC if a is None else (not a)),
    "x == y": (("x", "y"), cmp_ref(lambda x, y: x == y)),
    "x > y": (("x", "y"), cmp_ref(lambda x, y: x > y)),
    "x >= y": (("x", "y"), cmp_ref(lambda x, y: x >= y)),
    "z.abs()": (("z",), nprop(abs)),
    "a and b": (("a", "b"), lambda a, b: UNSPEC if (a is None or b is None) else (a and b)),
    "x.arccos()": (("x",), nprop(math.acos, lambda x: -1 <= x <= 1)),
    "x.arccosh()": (("x",), nprop(math.acosh, lambda x: x >= 1)),
    "x.arcsin()": (("x",), nprop(math.asin, lambda x: -1 <= x <= 1)),
    "x.arcsinh()": (("x",), nprop(math.asinh)),
    "x.arctan()": (("x",), nprop(math.atan)),
    "x.arctan2(y)": (("x", "y"), nprop(math.atan2)),
    "x.arctanh()": (("x",), nprop(math.atanh, lambda x: -1 < x < 1)),
    "y.around(2)": (("y",), r_around2),
    "y.as_int64()": (("y",), lambda y: UNSPEC if y is None or abs(y) > 1e9 else int(y)),
    "y.as_str()": (("y",), lambda y: UNSPEC),
    "y.ceil()": (("y",), nprop(lambda y: float(math.ceil(y)))),
    "z.ceil()": (("z",), nprop(lambda z: float(math.ceil(z)))),
    "z %?% 2": (("z",), lambda z: 2 if z is None else z),
    "z.coalesce(2)": (("z",), lambda z: 2 if z is None else z),
    "z.coalesce_0()": (("z",), lambda z: 0 if z is None else z),
    'g %+% "_" %+% s2': (("g", "s2"), lambda g, s2: UNSPEC if (g is None or s2 is None) else g + "_" + s2),
    "g.concat(s2)": (("g", "s2"), lambda g, s2: UNSPEC if (g is None or s2 is None) else g + s2),
    "x.cos()": (("x",), nprop(math.cos, lambda x: abs(x) < 1e5)),
    "x.cosh()": (("x",), nprop(math.cosh, lambda x: abs(x) < 50)),
    "x.exp()": (("x",), nprop(math.exp, lambda x: abs(x) < 50)),
    "y.expm1()": (("y",), nprop(math.expm1, lambda y: abs(y) < 50)),
    "y.floor()": (("y",), nprop(lambda y: float(math.floor(y)))),
    "z.floor()": (("z",), nprop(lambda z: float(math.floor(z)))),
    "row_id.fmax(x)": (("row_id", "x"), lambda r, x: (x if r is None else (r if x is None else max(r, x)))),
    "row_id.fmin(x)": (("row_id", "x"), lambda r, x: (x if r is None else (r if x is None else min(r, x)))),
    "a.if_else(x, y)": (("a", "x", "y"), lambda a, x, y: None if a is None else (x if a else y)),
    "z.is_bad()": (("z",), lambda z: z is None or math.isinf(z)),
    "row_id.is_in({1, 3})": (("row_id",), lambda r: UNSPEC if r is None else (r in (1, 3))),
    "y.is_inf()": (("y",), lambda y: UNSPEC if y is None else math.isinf(y)),
    "y.is_nan()": (("y",), lambda y: UNSPEC if y is None else False),
    "z.is_null()": (("z",), lambda z: z is None),
    "x.log()": (("x",), nprop(math.log, lambda x: x > 0)),
    "x.log10()": (("x",), nprop(math.log10, lambda x: x > 0)),
    "x.log1p()": (("x",), nprop(math.log1p, lambda x: x > -1)),
    'g.mapv({"a": 1, "b": 2, "z": 26}, 0)': (("g",), lambda g: {"a": 1, "b": 2, "z": 26}.get(g, 0)),
    "row_id.maximum(x)": (("row_id", "x"), nprop(max)),
    "row_id.minimum(x)": (("row_id", "x"), nprop(min)),
    "row_id.mod(2)": (("row_id",), nprop(lambda r: r % 2)),
    "a or b": (("a", "b"), lambda a, b: UNSPEC if (a is None or b is None) else (a or b)),
    "row_id.remainder(2)": (("row_id",), nprop(lambda r: r % 2)),
    "y.round()": (("y",), r_round),
    "z.sign()": (("z",), nprop(sign)),
    "x.sin()": (("x",), nprop(math.sin, lambda x: abs(x) < 1e5)),
    "x.sinh()": (("x",), nprop(math.sinh, lambda x: abs(x) < 50)),
    "x.sqrt()": (("x",), nprop(math.sqrt, lambda x: x >= 0)),
    "x.tanh()": (("x",), nprop(math.tanh)),
    "g.trimstr(0, 2)": (("g",), lambda g: UNSPEC if g is None else g[0:2]),
    "a.where(x, y)": (("a", "x", "y"), lambda a, x, y: (x if a else y) if a is not None else y),
}


def d_(v):
    return None if v is None else datetime.date.fromisoformat(v)


def dt_(v):
    return None if v is None else datetime.datetime.fromisoformat(v)


DATE_REFS = {
    "date_col_0.year()": (("date_col_0",), lambda v: None if v is None else d_(v).year),
    "date_col_0.month()": (("date_col_0",), lambda v: None if v is None else d_(v).month),
    "date_col_0.quarter()": (("date_col_0",), lambda v: None if v is None else (d_(v).month - 1) // 3 + 1),
    "date_col_0.dayofmonth()": (("date_col_0",), lambda v: None if v is None else d_(v).day),
    "date_col_0.dayofyear()": (("date_col_0",), lambda v: None if v is None else d_(v).timetuple().tm_yday),
    "date_col_0.date_diff(date_col_1)": (("date_col_0", "date_col_1"),
                                         lambda a, c: None if (a is None or c is None) else (d_(a) - d_(c)).days),
    "datetime_col_0.timestamp_diff(datetime_col_1)": (("datetime_col_0", "datetime_col_1"),
                                                      lambda a, c: None if (a is None or c is None) else (dt_(a) - dt_(c)).total_seconds()),
    "date_col_0.format_date()": (("date_col_0",), lambda v: None if v is None else v),
}
UNJUDGED = {"date_col_1.base_Sunday()", "date_col_0.dayofweek()", "date_col_0.weekofyear()", "datetime_col_0.datetime_to_date()",
            "datetime_col_0.format_datetime()", "str_date_col.parse_date()", "str_datetime_col.parse_datetime()",
            "_uniform()", "x.any_value()", "_ngroup()", "z.cumcount()", "x.rank()", "_count()"}


# ------------------------------------------------------------------ frames
FPOOL = [0.0, 1.0, -1.0, 0.25, -0.75, 2.5, 1e-3, 1e6, 3.25, -7.75, 10.0, 0.125, 1.1, -2.2, 7.0, 0.9]
DATES = ["2020-01-01", "2020-02-29", "2021-12-31", "2019-07-04", "2000-03-15", "2023-10-08", "2024-12-30"]
TIMES = ["2020-01-01 00:00:00", "2020-02-29 23:59:59", "2021-12-31 12:30:00", "2019-07-04 06:07:08"]


INF_OK = {"z %?% 2", "z.coalesce(2)", "z.coalesce_0()", "(z + 1) %?% (x * 2)", "y.is_inf()", "z.is_bad()", "z.is_null()", "y.is_nan()",
          "z.abs()", "-x", "z.sign()", "row_id.fmax(x)", "row_id.fmin(x)", "row_id.maximum(x)", "row_id.minimum(x)",
          "a.if_else(x, y)", "a.where(x, y)", "x < y", "x > y"}


def gen_frame(rng, kind):
    n = {"empty": 0, "single": 1}.get(kind, rng.randint(8, 12))
    nullp = {"nonull": 0.0, "allnull": 1.0}.get(kind, 0.2)
    pool = FPOOL + ([float("inf"), float("-inf"), float("inf")] * 2 if kind == "inf" else [])
    rows = []
    for i in range(n):
        x = None if rng.random() < nullp else rng.choice(pool)
        y = None if rng.random() < nullp else (x if (x is not None and rng.random() < 0.15) else rng.choice(pool))
        rows.append({
            "row_id": i, "q": rng.choice([1, 2, 3, 5]), "x": x, "y": y,
            # signed integers (never missing: they stay integer typed), the divisor never 0
            "k": rng.choice([-11, -7, -6, -1, 0, 1, 6, 7, 11]), "j": rng.choice([-4, -3, -2, 2, 3, 4, 5]),
            "z": None if rng.random() < max(nullp, 0.3) else rng.choice(pool),
            "a": None if (kind == "allnull") else (rng.random() < 0.5), "b": None if (kind == "allnull") else (rng.random() < 0.5),
            "g": None if rng.random() < nullp else rng.choice(["a", "b", "z", "other", "ab c"]),
            "s2": None if rng.random() < nullp else rng.choice(["u", "vw", "", "it's"]),
            "grp": rng.choice(["k1", "k2", None]) if kind != "nonull" else rng.choice(["k1", "k2"]),
            "date_col_0": None if rng.random() < nullp else rng.choice(DATES),
            "date_col_1": None if rng.random() < nullp else rng.choice(DATES),
            "datetime_col_0": None if rng.random() < nullp else rng.choice(TIMES),
            "datetime_col_1": None if rng.random() < nullp else rng.choice(TIMES),
        })
    return rows


def to_pandas(rows, with_dates):
    import pandas

    cols = ["row_id", "q", "k", "j", "x", "y", "z", "a", "b", "g", "s2", "grp"]
    d = pandas.DataFrame({c: [r[c] for r in rows] for c in cols}, columns=cols)
    for c in ("x", "y", "z"):
        d[c] = d[c].astype("float64")
    for c in ("row_id", "q", "k", "j"):
        d[c] = d[c].astype("int64")
    if len(rows) == 0 or all(r["a"] is not None for r in rows):
        d["a"] = d["a"].astype("bool")
        d["b"] = d["b"].astype("bool")
    if with_dates:
        for c in ("date_col_0", "date_col_1"):
            d[c] = pandas.to_datetime(pandas.Series([r[c] for r in rows], dtype="object")).dt.date if False else \
                pandas.to_datetime(pandas.Series([r[c] for r in rows], dtype="object"))
        for c in ("datetime_col_0", "datetime_col_1"):
            d[c] = pandas.to_datetime(pandas.Series([r[c] for r in rows], dtype="object"))
    return d


# ------------------------------------------------------------------ running one catalog row
EXTRA = [
    # the same catalogued methods with compound arguments (precedence inside the generated SQL, literal defaults)
    ("if_else", "((x > 0) and b).if_else(y, z)", ("x", "b", "y", "z"),
     lambda x, b_, y, z: UNSPEC if (x is None or b_ is None) else (y if (x > 0 and b_) else z)),
    ("if_else", "((x > 0) or b).if_else(y, z)", ("x", "b", "y", "z"),
     lambda x, b_, y, z: UNSPEC if (x is None or b_ is None) else (y if (x > 0 or b_) else z)),
    ("where", "((x > 0) and b).where(y, z)", ("x", "b", "y", "z"),
     lambda x, b_, y, z: UNSPEC if (x is None or b_ is None) else (y if (x > 0 and b_) else z)),
    ("if_else", "(a == False).if_else(x, y)", ("a", "x", "y"), lambda a, x, y: UNSPEC if a is None else (x if (not a) else y)),
    ("mapv", 'g.mapv({"a": 1.5, "b": 2.5}, 0.0)', ("g",), lambda g: {"a": 1.5, "b": 2.5}.get(g, 0.0)),
    ("mapv", 'g.mapv({"a": "p", "b": "q"}, "")', ("g",), lambda g: {"a": "p", "b": "q"}.get(g, "")),
    ("mapv", 'g.mapv({"a": 1, "b": 2}, -1)', ("g",), lambda g: {"a": 1, "b": 2}.get(g, -1)),
    ("coalesce", "(z + 1) %?% (x * 2)", ("z", "x"), lambda z, x: (z + 1) if z is not None else (None if x is None else x * 2)),
    ("maximum", "(x + 1).maximum(y - 1)", ("x", "y"), nprop(lambda x, y: max(x + 1, y - 1))),
    ("fmin", "(x + 1).fmin(y - 1)", ("x", "y"),
     lambda x, y: (None if y is None else y - 1) if x is None else ((x + 1) if y is None else min(x + 1, y - 1))),
    ("-", "-(x - y)", ("x", "y"), nprop(lambda x, y: -(x - y))),
    ("/", "(x - y) / (z.abs() + 1)", ("x", "y", "z"), nprop(lambda x, y, z: (x - y) / (abs(z) + 1))),
    # around with other digit counts than the catalog's example, negative ones included (round to tens / hundreds)
    ("around", "y.around(-1)", ("y",), r_around(-1)),
    ("around", "(y * 100).around(-2)", ("y",), lambda y: None if y is None else r_around(-2)(y * 100)),
    ("around", "y.around(0)", ("y",), r_around(0)),
    ("around", "y.around(1)", ("y",), r_around(1)),
    # addition chains of three and four terms (one n-ary node after parsing) with missing operands
    ("+", "x + y + z", ("x", "y", "z"), nprop(lambda x, y, z: x + y + z)),
    ("+", "x + y + z + x", ("x", "y", "z"), nprop(lambda x, y, z: x + y + z + x)),
    ("*", "x * y * z", ("x", "y", "z"), nprop(lambda x, y, z: x * y * z)),
    # two-argument extrema over two columns that are equal in ~15% of the rows (ties between the arguments)
    ("fmax", "x.fmax(y)", ("x", "y"), lambda x, y: (y if x is None else (x if y is None else max(x, y)))),
    ("fmin", "x.fmin(y)", ("x", "y"), lambda x, y: (y if x is None else (x if y is None else min(x, y)))),
    ("maximum", "x.maximum(y)", ("x", "y"), nprop(max)),
    ("minimum", "x.minimum(y)", ("x", "y"), nprop(min)),
    # modulo family with signed operands.  The source names NumPy as the reference ("mod ... remainder ... they do [agree]
    # in numpy, which we will use as the reference implementation"): the result takes the sign of the divisor.
    ("remainder", "k.remainder(j)", ("k", "j"), nprop(lambda k, j: k % j)),
    ("mod", "k.mod(j)", ("k", "j"), nprop(lambda k, j: k % j)),
    ("%", "k % j", ("k", "j"), nprop(lambda k, j: k % j)),
    ("//", "k // j", ("k", "j"), nprop(lambda k, j: k // j)),
    ("remainder", "x.remainder(y.abs() + 1.5)", ("x", "y"), nprop(lambda x, y: x - math.floor(x / (abs(y) + 1.5)) * (abs(y) + 1.5))),
    ("mod", "x.mod(y.abs() + 1.5)", ("x", "y"), nprop(lambda x, y: x - math.floor(x / (abs(y) + 1.5)) * (abs(y) + 1.5))),
    ("%", "x % (y.abs() + 1.5)", ("x", "y"), nprop(lambda x, y: x - math.floor(x / (abs(y) + 1.5)) * (abs(y) + 1.5))),
]
# Backends judged for the signed / float modulo variants.  Integer `%`, `mod` and `//` are sent to the database as they
# are ("use destination semantics" in sql_model.py; the accepted convention of C01): the SQL engines are not judged on
# them.  `remainder` is implemented for the generic dialects by an explicit floor formula (judged on the PostgreSQL
# text); the SQLite dialect maps it to its integer `%` operator: not judged for integers (same convention), judged for
# floats, where `%` silently truncates both operands to integers (recorded finding).  MOD(double precision, ...) does
# not exist in PostgreSQL and the surrogate cannot tell: float `%` / mod are not judged there.
EXTRA_JUDGE_ON = {
    "k.remainder(j)": {"pandas", "polars", "pg-surrogate"},
    "k.mod(j)": {"pandas", "polars"},
    "k % j": {"pandas", "polars"},
    "k // j": {"pandas", "polars"},
    "x.remainder(y.abs() + 1.5)": {"pandas", "polars", "pg-surrogate", "sqlite"},
    "x.mod(y.abs() + 1.5)": {"pandas", "polars", "sqlite"},
    "x % (y.abs() + 1.5)": {"pandas", "polars", "sqlite"},
}
for _op, _e, _a, _f in EXTRA:
    E_REFS[_e] = (_a, _f)


def catalog():
    import data_algebra.op_catalog as oc

    t = oc.methods_table
    rows = [dict(t.iloc[i]) for i in range(t.shape[0])]
    for op, e, a, f in EXTRA:
        rows.append({"op": op, "expression": e, "op_class": "e", "Pandas": "y", "SQLiteModel": "y", "BigQueryModel": "y",
                     "PostgreSQLModel": "y", "SparkSQLModel": "y", "MySQLModel": "y", "version": "extra"})
    return rows


def expected(entry, rows):
    """returns (arg columns, list of expected values parallel to rows keyed by row_id) or None when the row is not judged"""
    expr, cls = entry["expression"], entry["op_class"]
    if expr in UNJUDGED:
        return None
    if cls == "e":
        ref = E_REFS.get(expr) or DATE_REFS.get(expr)
        if expr == "x.sum()":
            vals = [r["x"] for r in rows if r["x"] is not None]
            return ("x",), [(sum(vals) if vals else UNSPEC)] * len(rows)
        if ref is None:
            return None
        args, f = ref
        return args, [f(*[r[a] for a in args]) for r in rows]
    name = entry["op"]
    if cls in ("g", "p"):
        col = {"(1).sum()": None}.get(expr, expr.split(".")[0] if "." in expr else None)
        groups = {}
        for r in rows:
            groups.setdefault(r["grp"], []).append(r)
        per = {}
        for k, members in groups.items():
            vals = [(1 if col is None else m[col]) for m in members]
            if name in ("all", "any"):
                nn = [v for v in vals if v is not None]
                per[k] = UNSPEC if len(nn) < len(vals) else (all(nn) if name == "all" else any(nn))
            else:
                fn = "size" if name == "_size" else name
                per[k] = group_fn(fn, vals)
        if cls == "g":
            return ((col,) if col else ()), [per[r["grp"]] for r in rows]
        return ((col,) if col else ()), per   # project: dict group -> value
    if cls == "w":
        col = expr.split(".")[0] if "." in expr else None
        groups = {}
        for r in rows:
            groups.setdefault(r["grp"], []).append(r)
        out = {}
        for k, members in groups.items():
            members = sorted(members, key=lambda m: m["row_id"])
            vals = [(1 if col is None else m[col]) for m in members]
            res = ordered_fn(name, vals)
            for m, v in zip(members, res):
                out[m["row_id"]] = v
        return ((col,) if col else ()), [out[r["row_id"]] for r in rows]
    return None


def build(entry, cols):
    from data_algebra.view_representations import TableDescription

    t = TableDescription(table_name="d", column_names=cols)
    expr, cls = entry["expression"], entry["op_class"]
    if cls == "e":
        return t.extend({"r": expr})
    if cls == "g":
        return t.extend({"r": expr}, partition_by=["grp"])
    if cls == "p":
        return t.project({"r": expr}, group_by=["grp"])
    if cls == "w":
        return t.extend({"r": expr}, partition_by=["grp"], order_by=["row_id"])
    return None


def values_by_key(got, key):
    kv = got[key].to_list() if hasattr(got[key], "to_list") else got[key].tolist()
    rv = got["r"].to_list() if hasattr(got["r"], "to_list") else got["r"].tolist()
    return [(norm_cell(k), norm_cell(v)) for k, v in zip(kv, rv)]


def classify(be, entry, bad, argv=None):
    if be == "sqlite" and entry["op"] in ("%", "mod", "remainder") and entry["expression"].startswith("x") and argv:
        # float operands only, and only when the value SQLite returned is what the recorded mechanism produces: the
        # C-style integer modulo of the operands truncated to integers (NULL when the truncated divisor is 0)
        try:
            xi, di = int(argv["x"]), int(abs(argv["y"]) + 1.5)
            mech = None if di == 0 else float(math.fmod(xi, di))
            if (mech is None and bad[1] is None) or (mech is not None and bad[1] is not None and float(bad[1]) == mech):
                return F_FLOATMOD
        except Exception:
            return None
    return None


def judge(b, entry, rows, kind, sq, pg):
    exp = expected(entry, rows)
    expr = entry["expression"]
    if exp is None:
        b.count("not_judged", expr)
        return None
    args, want = exp
    is_date = expr.split(".")[0].startswith(("date", "datetime", "str_date"))
    if is_date or expr == "y.as_int64()":
        # the documentation fixes no behaviour for a missing date / a missing value cast to an integer: keep them out
        if any(r[a] is None for r in rows for a in args):
            b.count("frames_outside_domain", expr)
            return None
    outside_domain = any(w is UNSPEC for w in (want.values() if isinstance(want, dict) else want))
    frame = to_pandas(rows, is_date)
    cols = list(frame.columns)
    try:
        ops = build(entry, cols)
    except Exception as ex:
        b.violation("method-rejected-at-build", f"{expr} ({entry['op_class']}): {exc_str(ex)[:300]}",
                    case={"expression": expr, "op_class": entry["op_class"], "rows": rows, "backend": "build"})
        return None
    if ops is None:
        return None
    ok = set()
    if kind == "inf":
        # +-infinity as an ordinary value: judged on the in-memory executors only (SQLite cannot carry it)
        if expr not in INF_OK:
            return None
        b.count("infinity_frames", expr)
    claims = {"pandas": entry["Pandas"] == "y", "sqlite": entry["SQLiteModel"] == "y" and not is_date,
              # the surrogate cannot parse PostgreSQL's '+infinity' literals used by is_inf / is_bad
              "pg-surrogate": entry["PostgreSQLModel"] == "y" and not is_date and entry["op"] not in ("is_inf", "is_bad", "is_nan"),
              "polars": True}
    cj = {"expression": expr, "op_class": entry["op_class"], "rows": rows, "frame_kind": kind}
    for be in ("pandas", "sqlite", "pg-surrogate", "polars"):
        if not claims[be]:
            continue
        if expr in EXTRA_JUDGE_ON and be not in EXTRA_JUDGE_ON[expr]:
            b.count("not_judged_destination_convention", be + ":" + expr)
            continue
        if kind == "inf" and be in ("sqlite", "pg-surrogate"):
            continue
        try:
            if be == "pandas":
                got = backends.run_pandas(ops, {"d": frame})
            elif be == "polars":
                got = backends.run_polars(ops, {"d": frame})
            elif be == "sqlite":
                got = sq.run(ops, {"d": frame})
            else:
                got = pg.run(ops, {"d": frame})
        except Exception as ex:
            if be == "polars":
                b.count("polars_refusals", entry["op"])
                continue
            if outside_domain and entry["op_class"] == "e":
                # an argument outside the method's domain (log of a non-positive number, overflow, ...): a refusal by
                # the engine is not a wrong value
                b.count("refusal_outside_domain", be + ":" + entry["op"])
                continue
            b.violation("method-refused", f"{be} claims {expr} ({entry['op_class']}) but raises {exc_str(ex)[:300]}",
                        case=dict(cj, backend=be))
            continue
        b.count("comparisons", be)
        b.count("methods", entry["op"] + ":" + entry["op_class"], be)
        key = "grp" if entry["op_class"] == "p" else "row_id"
        pairs = values_by_key(got, key)
        bad = None
        ncmp = 0
        if entry["op_class"] == "p":
            if len(pairs) != len(want):
                bad = ("groups", len(pairs), len(want))
            else:
                for k, v in pairs:
                    w = want.get(k, UNSPEC)
                    if w is UNSPEC:
                        continue
                    ncmp += 1
                    if not cell_eq(v, norm_cell(w)):
                        bad = (k, v, w)
                        break
        else:
            byid = {r["row_id"]: w for r, w in zip(rows, want)}
            if len(pairs) != len(rows):
                bad = ("rows", len(pairs), len(rows))
            else:
                for k, v in pairs:
                    w = byid.get(k, UNSPEC)
                    if w is UNSPEC:
                        continue
                    ncmp += 1
                    if not cell_eq(v, norm_cell(w)):
                        bad = (k, v, w)
                        break
        b.count("cells_compared", n=ncmp)
        if bad:
            rr = [r for r in rows if r["row_id"] == bad[0]]
            argv = {a: rr[0][a] for a in args} if rr and args else {}
            b.violation("method-value-wrong",
                        f"{be}: {expr} ({entry['op_class']}): at key {bad[0]!r} (arguments {argv}) the result is {bad[1]!r}, documented "
                        f"meaning gives {bad[2]!r}", case=dict(cj, backend=be), finding_key=classify(be, entry, bad, argv))
            continue
        ok.add(be)
    return ok


def w_floatmod():
    import pandas
    from data_algebra.view_representations import TableDescription

    sq = backends.Sqlite()
    try:
        d = pandas.DataFrame({"x": [2.5, -0.75, 7.25], "y": [2.0, 1.5, 2.5]})
        ops = TableDescription(table_name="d", column_names=["x", "y"]).extend({"p": "x % y", "m": "x.mod(y)", "r": "x.remainder(y)"})
        want = ops.eval({"d": d})
        got = sq.run(ops, {"d": d})
        bad = [c for c in ("p", "m", "r") if [round(float(v), 9) for v in got[c]] != [round(float(v), 9) for v in want[c]]]
        if bad:
            return ("SQLite dialect: %s of float columns x=[2.5, -0.75, 7.25], y=[2.0, 1.5, 2.5] gives %s, Pandas gives %s "
                    "(SQLite's %% truncates both operands to integers)" % (bad, got[bad[0]].tolist(), want[bad[0]].tolist()))
        return None
    finally:
        sq.close()


WITNESSES = {F_FLOATMOD: w_floatmod}


def run_batch(seed, batch, tier):
    monitors.install()
    b = Batch(PID, seed, batch, tier)
    sq = backends.Sqlite()
    pg = backends.PgSurrogate()
    cat = catalog()
    b.counters["catalog_rows"] = len(cat)
    nb = NB[tier]
    for idx, entry in enumerate(cat):
        if idx % nb != batch % nb:
            continue
        for k in range(N[tier]):
            kind = ["mixed", "inf", "nonull", "mixed", "empty", "allnull", "single", "mixed"][k % 8]
            try:
                with time_limit(60):
                    rows = gen_frame(b.rng, kind)
                    b.evaluation()
                    ok = judge(b, entry, rows, kind, sq, pg)
                    if ok:
                        for be in ok:
                            b.sig(f"{entry['expression']}|{entry['op_class']}|{be}|{kind}")
                    b.sample({"expression": entry["expression"], "op_class": entry["op_class"], "rows": rows[:3]}, limit=1)
            except CaseTimeout:
                b.count("case_timeout")
            except Exception as ex:
                b.count("harness_error", entry["expression"] + ":" + type(ex).__name__ + ":" + str(ex)[:100])
    sq.close()
    pg.close()
    return b.result()


def replay(v):
    c = v.get("case") or {}
    if "expression" not in c:
        return None
    b = Batch(PID, 0, 0, "quick")
    entry = [e for e in catalog() if e["expression"] == c["expression"] and e["op_class"] == c["op_class"]]
    if not entry:
        return None
    sq, pg = backends.Sqlite(), backends.PgSurrogate()
    try:
        judge(b, entry[0], c["rows"], c.get("frame_kind", "mixed"), sq, pg)
    finally:
        sq.close(); pg.close()
    want = c.get("backend")
    for x in b.violations:
        if want is None or (x.get("case") or {}).get("backend") == want:
            return x["kind"] + ": " + x["detail"]
    return None


def inconclusive(counters, sigs, tier):
    m = counters.get("methods", {})
    if len(m) < 90:
        return f"only {len(m)} (method, class) pairs compared"
    for be in ("pandas", "sqlite", "pg-surrogate", "polars"):
        if counters.get("comparisons", {}).get(be, 0) < 100:
            return f"backend {be} compared {counters.get('comparisons', {}).get(be, 0)} times"
    return None
