"""C24 — OrderedSet is a set that remembers first insertion order.

Monitor: every operation of a history is applied to the real OrderedSet and to a
(list, set) model in lock-step; after every step the full observable state
(iteration order, len, membership of the whole alphabet, equality with a plain set)
is compared.  An icontract class invariant (internal consistency) is armed on the real
class, so it also fires inside operations the harness did not think of.
"""
import itertools

from vf.util import Batch, exc_str

PID = "C24"
LEVEL = "exploration"
RULE = (
    "histories of OrderedSet operations (add/discard/remove/pop/clear/update/union/copy, "
    "| & - ^ and in-place forms, comparisons) over a 4-element alphabet, bounded-exhaustive "
    "to the tier's depth then random up to length 60, each stepped against a (list,set) model; "
    "a history is non-trivial if it removes an element and later re-inserts one, or uses an "
    "in-place/binary set operator; distinct = distinct operation-name sequences"
)
EXHAUSTIVE = {"quick": True, "thorough": True}
ASSUMPTIONS = [
    "order of the *result* of binary operators (a & b, a | b, ...) is only required to be a valid "
    "insertion order of its elements' sources; contents are compared exactly",
    "pop() may return any member",
]

ALPHA = [0, 1, 2, 3]
ARGLISTS = [[], [0], [2, 1], [1, 3, 1], [3, 2, 0]]


def _ops_alphabet():
    ops = []
    for e in ALPHA[:3]:
        ops.append(("add", e))
        ops.append(("discard", e))
        ops.append(("remove", e))
    ops.append(("pop",))
    ops.append(("clear",))
    for a in ARGLISTS[1:]:
        ops.append(("update", tuple(a)))
    for name in ("ior", "iand", "isub", "ixor"):
        for a in ARGLISTS[1:4]:
            ops.append((name, tuple(a)))
    for name in ("or", "and", "sub", "xor", "union"):
        for a in (ARGLISTS[0], ARGLISTS[2], ARGLISTS[4]):
            ops.append((name, tuple(a)))
    ops.append(("copy",))
    return ops


OPS = _ops_alphabet()

_inv_evals = [0]
_armed = [False]


class InvariantBroken(Exception):
    pass


def _consistent(self):
    _inv_evals[0] += 1
    items = list(self.impl.keys())
    return len(items) == len(set(items)) and len(items) == len(self.impl)


def arm():
    if _armed[0]:
        return
    import icontract
    import data_algebra.OrderedSet as m

    icontract.invariant(_consistent, error=InvariantBroken)(m.OrderedSet)
    _armed[0] = True


class Model:
    def __init__(self, items=()):
        self.l = []
        for i in items:
            self.add(i)

    def add(self, e):
        if e not in self.l:
            self.l.append(e)

    def discard(self, e):
        if e in self.l:
            self.l.remove(e)


def observe(b, real, model, step, hist):
    """compare complete observable state"""
    got = list(real)
    if got != model.l:
        return f"iteration order {got} != model {model.l} after step {step}"
    if len(real) != len(model.l):
        return f"len {len(real)} != {len(model.l)}"
    for e in ALPHA + ["zz"]:
        if (e in real) != (e in model.l):
            return f"membership of {e!r}: {e in real} vs model {e in model.l}"
    if not (real == set(model.l)) or not (set(model.l) == set(real)):
        return f"== plain set failed: {real!r} vs {set(model.l)}"
    if repr(real) != "OrderedSet([%s])" % ", ".join(map(repr, model.l)):
        return f"repr {real!r}"
    b.count("state_comparisons")
    return None


def apply_op(b, OS, real, model, op):
    """apply one op to real and model; returns error string or None"""
    name = op[0]
    b.count("ops", name)
    if name == "add":
        real.add(op[1])
        model.add(op[1])
    elif name == "discard":
        real.discard(op[1])
        model.discard(op[1])
    elif name == "remove":
        raised = False
        try:
            real.remove(op[1])
        except KeyError:
            raised = True
        if raised != (op[1] not in model.l):
            return f"remove({op[1]}) raised={raised} but model has it={op[1] in model.l}"
        model.discard(op[1])
    elif name == "pop":
        raised = False
        v = None
        try:
            v = real.pop()
        except KeyError:
            raised = True
        if raised != (len(model.l) == 0):
            return f"pop raised={raised} on model {model.l}"
        if not raised:
            if v not in model.l:
                return f"pop returned {v!r} not in model {model.l}"
            model.discard(v)
    elif name == "clear":
        real.clear()
        model.l = []
    elif name == "update":
        real.update(list(op[1]))
        for e in op[1]:
            model.add(e)
    elif name in ("ior", "iand", "isub", "ixor"):
        arg = list(op[1])
        use_os = (len(arg) % 2) == 0
        other = OS(arg) if use_os else set(arg)
        before = id(real)
        if name == "ior":
            real |= other
            for e in arg:
                model.add(e)
        elif name == "iand":
            real &= other
            for e in list(model.l):
                if e not in arg:
                    model.discard(e)
        elif name == "isub":
            real -= other
            for e in arg:
                model.discard(e)
        else:
            real ^= other
            for e in dict.fromkeys(arg):
                if e in model.l:
                    model.discard(e)
                else:
                    model.add(e)
        if id(real) != before:
            return f"in-place {name} returned a different object"
    elif name in ("or", "and", "sub", "xor", "union"):
        arg = list(op[1])
        other = OS(arg)
        ms = set(model.l)
        if name == "or":
            r = real | other
            exp = ms | set(arg)
        elif name == "and":
            r = real & other
            exp = ms & set(arg)
        elif name == "sub":
            r = real - other
            exp = ms - set(arg)
        elif name == "xor":
            r = real ^ other
            exp = ms ^ set(arg)
        else:
            r = real.union(arg, [3])
            exp = ms | set(arg) | {3}
            # union is documented by construction: self order first, then args
            expo = list(model.l)
            for e in arg + [3]:
                if e not in expo:
                    expo.append(e)
            if list(r) != expo:
                return f"union order {list(r)} != {expo}"
        if not isinstance(r, OS):
            return f"{name} did not return an OrderedSet: {type(r)}"
        lr = list(r)
        if len(lr) != len(set(lr)) or set(lr) != exp or len(r) != len(exp):
            return f"{name} result {lr} != set result {exp}"
        # comparisons against plain-set semantics
        for cname, f in (
            ("le", lambda a, c: a <= c),
            ("lt", lambda a, c: a < c),
            ("ge", lambda a, c: a >= c),
            ("gt", lambda a, c: a > c),
        ):
            if f(real, other) != f(ms, set(arg)):
                return f"comparison {cname} of {list(real)} with {arg} = {f(real, other)}"
        if real.isdisjoint(other) != ms.isdisjoint(set(arg)):
            return "isdisjoint"
    elif name == "copy":
        c = real.copy()
        if list(c) != model.l:
            return f"copy order {list(c)} != {model.l}"
        c.add("zz")
        if "zz" in real:
            return "copy shares state with original"
    else:  # pragma: no cover
        raise ValueError(name)
    return None


def run_history(b, OS, init, hist):
    b.evaluation()
    real = OS(list(init))
    model = Model(init)
    removed = False
    nontrivial = False
    for step, op in enumerate(hist):
        try:
            err = apply_op(b, OS, real, model, op)
        except InvariantBroken as ex:
            err = "icontract invariant broken: " + exc_str(ex)
        except Exception as ex:
            err = "unexpected exception: " + exc_str(ex)
        if err is None:
            err = observe(b, real, model, step, hist)
        if err is not None:
            b.violation(
                "orderedset-model-divergence",
                f"init={list(init)} history={hist} step={step} op={op}: {err}",
                case={"init": list(init), "history": [list(o) for o in hist]},
            )
            return
        if op[0] in ("discard", "remove", "pop", "clear", "isub", "iand", "ixor"):
            removed = True
        if (removed and op[0] in ("add", "update", "ior", "ixor")) or op[0] in (
            "ior", "iand", "isub", "ixor", "or", "and", "sub", "xor", "union"):
            nontrivial = True
    if nontrivial:
        b.sig("|".join(o[0] for o in hist))


def helpers_check(b, OS, rng, n):
    import data_algebra.OrderedSet as m

    for _ in range(n):
        a = [rng.choice(ALPHA + ["x", "y"]) for _ in range(rng.randint(0, 7))]
        c = [rng.choice(ALPHA + ["x", "y"]) for _ in range(rng.randint(0, 7))]
        b.evaluation()
        da = list(dict.fromkeys(a))
        dc = list(dict.fromkeys(c))
        exp_u = da + [v for v in dc if v not in da]
        exp_i = [v for v in da if v in c]
        exp_d = [v for v in da if v not in c]
        for name, fn, exp in (
            ("ordered_union", m.ordered_union, exp_u),
            ("ordered_intersect", m.ordered_intersect, exp_i),
            ("ordered_diff", m.ordered_diff, exp_d),
        ):
            b.count("helpers", name)
            # the arguments are presented as every kind of iterable a caller may hold
            pa = rng.choice(["list", "tuple", "OrderedSet", "dict-keys", "generator", "iter"])
            pc = rng.choice(["list", "tuple", "set", "OrderedSet", "dict-keys", "generator", "iter", "map"])

            def present(vals, how):
                if how == "list":
                    return list(vals)
                if how == "tuple":
                    return tuple(vals)
                if how == "set":
                    return set(vals)
                if how == "OrderedSet":
                    return OS(list(vals))
                if how == "dict-keys":
                    return dict.fromkeys(vals).keys()
                if how == "generator":
                    return (v for v in list(vals))
                if how == "iter":
                    return iter(list(vals))
                return map(lambda v: v, list(vals))

            xa, xc = present(a, pa), present(c, pc)
            if pc == "set":
                # "ordered by the second argument" means a set's own iteration order
                c_eff = list(xc)
                exp = {"ordered_union": da + [v for v in c_eff if v not in da], "ordered_intersect": exp_i,
                       "ordered_diff": exp_d}[name]
            b.count("helper_argument_kinds", pa + "," + pc)
            try:
                got = fn(xa, xc)
                ok = isinstance(got, OS) and list(got) == exp
            except Exception as ex:
                got = exc_str(ex)
                ok = False
            if not ok:
                b.violation("helper-order", f"{name}({pa} {a}, {pc} {c}) = {got!r}, expected {exp}",
                            case={"helper": name, "a": a, "b": c, "kinds": [pa, pc]})
                continue
            # the helpers return a new set: the caller's own containers must be what they were
            for which, x, vals, how in (("first", xa, a, pa), ("second", xc, c, pc)):
                if how in ("list", "tuple", "set", "OrderedSet"):
                    now = list(x) if how != "set" else sorted(x, key=repr)
                    was = (list(vals) if how in ("list", "tuple") else (list(dict.fromkeys(vals)) if how == "OrderedSet" else sorted(set(vals), key=repr)))
                    if now != was:
                        b.violation("helper-modified-argument", f"{name}: the {which} argument ({how}) was {was} and is {now} after the call",
                                    case={"helper": name, "a": a, "b": c, "kinds": [pa, pc]})
            if isinstance(xa, OS) and got is xa:
                b.violation("helper-modified-argument", f"{name}: the result is the caller's own first argument object",
                            case={"helper": name, "a": a, "b": c, "kinds": [pa, pc]})
        if a and c:
            b.sig("helpers:%d:%d:%d" % (len(da), len(dc), len(exp_i)))


DEPTH = {"quick": 3, "thorough": 4}
NB = {"quick": 8, "thorough": 16}


def plan(tier):
    return {"batches": NB[tier], "batch_timeout_s": 1500}


def run_batch(seed, batch, tier):
    arm()
    import data_algebra.OrderedSet as m

    OS = m.OrderedSet
    b = Batch(PID, seed, batch, tier)
    nb = NB[tier]
    depth = DEPTH[tier]
    inits = [(), (0,), (2, 0, 1)]
    # bounded exhaustive: histories whose first-op index falls in this batch
    for first_i, first in enumerate(OPS):
        if first_i % nb != batch:
            continue
        for d in range(0, depth):
            for rest in itertools.product(OPS, repeat=d):
                init = inits[(first_i + d + len(rest)) % len(inits)] if d else inits[first_i % 3]
                run_history(b, OS, init, (first,) + rest)
                b.count("exhaustive_histories")
    # random longer histories
    nrand = 400 if tier == "quick" else 6000
    for _ in range(nrand):
        ln = b.rng.randint(5, 60)
        hist = tuple(b.rng.choice(OPS) for _ in range(ln))
        init = tuple(b.rng.sample(ALPHA, b.rng.randint(0, 3)))
        run_history(b, OS, init, hist)
        b.count("random_histories")
    helpers_check(b, OS, b.rng, 300 if tier == "quick" else 5000)
    b.counters["icontract_invariant_evaluations"] = _inv_evals[0]
    b.sample({"init": [2, 0, 1], "history": [list(o) for o in OPS[:6]]})
    return b.result()


def inconclusive(counters, sigs, tier):
    if counters.get("icontract_invariant_evaluations", 0) == 0:
        return "icontract invariant never evaluated"
    if counters.get("state_comparisons", 0) < 1000:
        return "too few state comparisons"
    missing = [o for o in {x[0] for x in OPS} if counters.get("ops", {}).get(o, 0) == 0]
    if missing:
        return "operations never exercised: %s" % missing
    return None


def replay(v):
    arm()
    import data_algebra.OrderedSet as m

    c = v.get("case") or {}
    b = Batch(PID, 0, 0, "quick")
    if "helper" in c:
        return "re-run the check: helper cases are regenerated" if False else None
    run_history(b, m.OrderedSet, tuple(c.get("init", [])), tuple(tuple(o) if not isinstance(o[1:], list) else (o[0],) + tuple(tuple(x) if isinstance(x, list) else x for x in o[1:]) for o in c.get("history", [])))
    return b.violations[0]["detail"] if b.violations else None
