"""C27 — windowed and ordered window functions are computed per ordered partition.

Single windowed extends (optionally behind a row filter) over tables with 0-2 partition columns (null keys included),
1-3 order columns with ties in the individual columns (total only jointly) and any reversal subset.  Every backend
that supports the function (Pandas; SQLite and the PostgreSQL dialect per the method catalog; Polars whenever it does
not raise) must give, for every row, the value the reference computes over that row's partition in the declared
order.  Agreement with one reference implies pairwise agreement of the backends.
"""
import json

from vf import backends, monitors
from vf.compare import cell_eq, norm_cell
from vf.gen import core
from vf.refwin import window_reference, UNSPEC
from vf.util import Batch, exc_str, time_limit, CaseTimeout

PID = "C27"
LEVEL = "exploration"
RULE = (
    "function in {cumsum,cummax,cummin,cumprod,_row_number,shift(1|2|-1),first,last,ffill,bfill} with order_by, or "
    "{sum,mean,min,max,count,size,_size,std,var,median,nunique} with partition only; 0-2 partition columns (null keys "
    "in 1/3 of the tables), 1-3 order columns with ties in single columns and any reversal subset, 0-12 rows, null "
    "values where the function's meaning at a null is documented; non-trivial = >= 2 partitions of size >= 2 and "
    "(a reversed key or >= 2 order keys or an unordered aggregate); distinct = distinct (function, #partition cols, "
    "order cols, reversal, backends that returned)"
)
ASSUMPTIONS = [
    "running functions are not judged at rows whose own value is null (recorded divergence between backends)",
    "std/var of fewer than two values, sum of an all-null partition, first/last of a null are unspecified and not compared",
    "Polars raising is a refusal (counted)",
]

N = {"quick": 1600, "thorough": 60000}
NB = {"quick": 16, "thorough": 64}

ORDERED = ["cumsum", "cummax", "cummin", "cumprod", "_row_number", "shift", "first", "last", "ffill", "bfill"]
UNORDERED = ["sum", "mean", "min", "max", "count", "size", "_size", "std", "var", "median", "nunique"]
SUPPORT = {
    "pandas": set(ORDERED + UNORDERED),
    "sqlite": {"cumsum", "cummax", "cummin", "_row_number", "shift", "sum", "mean", "min", "max", "count", "size", "_size"},
    "pg-surrogate": {"cumsum", "cummax", "cummin", "_row_number", "shift", "sum", "mean", "min", "max", "count", "size",
                     "_size", "std", "var"},
}
NEEDS_NONNULL = {"cumsum", "cummax", "cummin", "cumprod", "first", "last"}


def plan(tier):
    return {"batches": NB[tier], "batch_timeout_s": 3000}


def gen_case(rng, tier):
    nrows = rng.choice([0, 1, 2, 3, 5, 8, 8, 12] if tier == "quick" else [0, 1, 3, 8, 12, 20, 30])
    null_part = rng.random() < 0.33
    fn = rng.choice(ORDERED + UNORDERED)
    ordered = fn in ORDERED
    null_vals = (fn not in NEEDS_NONNULL) and rng.random() < 0.6
    cols = [["p1", "s"], ["p2", "i"], ["o1", "i"], ["o2", "f"], ["uid", "i"], ["v", "f"], ["w", "i"]]
    uids = list(range(nrows))
    rng.shuffle(uids)
    rows = []
    for i in range(nrows):
        rows.append([
            (None if (null_part and rng.random() < 0.3) else rng.choice(["a", "b", "c"][: rng.randint(1, 3)])),
            (None if (null_part and rng.random() < 0.2) else rng.choice([0, 1])),
            rng.choice([0, 1, 2]),
            rng.choice([0.5, 1.5, -2.0]),
            uids[i],
            (None if (null_vals and rng.random() < 0.3) else rng.choice([1.0, 2.0, -1.0, 0.5, 3.25, -7.75, 10.0])),
            rng.choice([-2, -1, 0, 1, 2, 3]),
        ])
    part = rng.sample(["p1", "p2"], rng.choice([0, 1, 1, 2]))
    order, reverse, arg = [], [], None
    if ordered:
        order = rng.sample(["o1", "o2"], rng.choice([0, 1, 1, 2])) + ["uid"]
        if rng.random() < 0.25:
            order = ["uid"]
        reverse = [c for c in order if rng.random() < 0.4]
        if fn == "shift":
            arg = rng.choice([None, None, 1, 2, -1])
    vcol = None if fn in ("_row_number", "_size") else rng.choice(["v", "v", "w"])
    if fn == "cumprod":
        vcol = "w"
    pre = None
    if ordered and len(order) >= 2 and rng.random() < 0.35:
        # a preceding ordered window over the same partition whose order_by lists the same columns in another order
        # (or with other reversals): the two windows must stay two windows
        po = order[1:] + order[:1] if rng.random() < 0.7 else list(order)
        pre = {"order": po, "reverse": [c for c in po if rng.random() < 0.4]}
        if pre["order"] == order and pre["reverse"] == reverse:
            pre["reverse"] = [c for c in po if c not in reverse][:1]
    return {"table": {"name": "d", "cols": cols, "rows": rows}, "fn": fn, "vcol": vcol, "partition": part, "order": order,
            "reverse": reverse, "arg": arg, "prefilter": rng.random() < 0.2, "pre": pre,
            # the partition column is computed by the step just before the window (p2 := o1)
            "computed_partition": ("p2" in part) and rng.random() < 0.35,
            # the window is declared on the bare table and composed onto the row filter with >>
            "compose": rng.random() < 0.3}


def expr_text(case):
    fn, vcol, arg = case["fn"], case["vcol"], case["arg"]
    if vcol is None:
        return f"{fn}()"
    if arg is not None:
        return f"{vcol}.{fn}({arg})"
    return f"{vcol}.{fn}()"


def build(case):
    from data_algebra.view_representations import TableDescription

    t = TableDescription(table_name="d", column_names=[c for c, _ in case["table"]["cols"]])
    head = None
    if case.get("prefilter"):
        if case.get("compose"):
            head = t.select_rows("w > -100")
        else:
            t = t.select_rows("w > -100")
    if case.get("computed_partition"):
        t = t.extend({"p2": "o1"})
    pb = case["partition"] if case["partition"] else 1
    ob = case["order"] if case["order"] else None
    if case.get("pre"):
        t = t.extend({"r0": "_row_number()"}, partition_by=pb, order_by=case["pre"]["order"], reverse=case["pre"]["reverse"] or None)
    res = t.extend({"r": expr_text(case)}, partition_by=pb, order_by=ob, reverse=case["reverse"] or None)
    if head is not None:
        res = head >> res
    return res


def judge(b, case, sq, pg):
    cols = [c for c, _ in case["table"]["cols"]]
    rows = case["table"]["rows"]
    frame = core.table_frame(case["table"])
    if case.get("computed_partition"):
        rows = [list(r) for r in rows]
        for r in rows:
            r[cols.index("p2")] = r[cols.index("o1")]
        b.count("computed_partition_columns")
    if case.get("prefilter") and case.get("compose"):
        b.count("composed_windows")
    want = window_reference(cols, rows, case["fn"], case["vcol"], case["partition"], case["order"], case["reverse"], case["arg"])
    by_uid = {r[cols.index("uid")]: w for r, w in zip(rows, want)}
    by_uid0 = None
    if case.get("pre"):
        want0 = window_reference(cols, rows, "_row_number", None, case["partition"], case["pre"]["order"], case["pre"]["reverse"])
        by_uid0 = {r[cols.index("uid")]: w for r, w in zip(rows, want0)}
        b.count("chained_windows")
    try:
        ops = build(case)
    except Exception as ex:
        b.count("build_raised", type(ex).__name__)
        return None
    ok = set()
    cj = json.loads(json.dumps(case))
    for be in ("pandas", "polars", "polars-lazy", "sqlite", "pg-surrogate"):
        sup = SUPPORT.get(be)
        if sup is not None and case["fn"] not in sup:
            continue
        try:
            if be == "pandas":
                got = backends.run_pandas(ops, {"d": frame})
            elif be.startswith("polars"):
                got = backends.run_polars(ops, {"d": frame}, lazy=be.endswith("lazy"))
            elif be == "sqlite":
                got = sq.run(ops, {"d": frame})
            else:
                got = pg.run(ops, {"d": frame})
        except Exception as ex:
            if be.startswith("polars"):
                b.count("polars_refusals", case["fn"] + ":" + type(ex).__name__)
                continue
            b.violation("window-refused", f"{be}: {expr_text(case)} partition_by={case['partition']} order_by={case['order']} "
                        f"reverse={case['reverse']} raises {exc_str(ex)[:300]}", case=dict(cj, backend=be))
            continue
        b.count("comparisons", be)
        b.count("functions", case["fn"], be)
        if got.shape[0] != len(rows):
            b.violation("window-changed-row-count", f"{be}: {got.shape[0]} rows for {len(rows)} input rows",
                        case=dict(cj, backend=be))
            continue
        gu = [norm_cell(x) for x in (got["uid"].to_list() if hasattr(got["uid"], "to_list") else got["uid"].tolist())]
        gr = [norm_cell(x) for x in (got["r"].to_list() if hasattr(got["r"], "to_list") else got["r"].tolist())]
        bad = None
        ncmp = 0
        for u, v in zip(gu, gr):
            w = by_uid.get(u, UNSPEC)
            if w is UNSPEC:
                continue
            ncmp += 1
            if not cell_eq(v, norm_cell(w)):
                bad = (u, v, w)
                break
        if bad is None and by_uid0 is not None and "r0" in list(got.columns):
            g0 = [norm_cell(x) for x in (got["r0"].to_list() if hasattr(got["r0"], "to_list") else got["r0"].tolist())]
            for u, v in zip(gu, g0):
                ncmp += 1
                if not cell_eq(v, norm_cell(by_uid0[u])):
                    bad = (u, "r0=" + repr(v), "r0=%r (first window: order_by=%s reverse=%s)" % (by_uid0[u], case["pre"]["order"], case["pre"]["reverse"]))
                    break
        b.count("cells_compared", n=ncmp)
        if bad:
            b.violation("window-value-wrong",
                        f"{be}: {expr_text(case)} partition_by={case['partition']} order_by={case['order']} reverse={case['reverse']}: "
                        f"row uid={bad[0]} has r={bad[1]!r}, the value over its ordered partition is {bad[2]!r}\n"
                        f"rows (p1,p2,o1,o2,uid,v,w): {rows[:14]}", case=dict(cj, backend=be))
            continue
        ok.add(be)
    return ok


def nontrivial(case):
    cols = [c for c, _ in case["table"]["cols"]]
    parts = {}
    for r in case["table"]["rows"]:
        k = tuple(r[cols.index(p)] for p in case["partition"])
        parts[k] = parts.get(k, 0) + 1
    big = sum(1 for v in parts.values() if v >= 2)
    if big < 2 and case["partition"]:
        return False
    if not case["partition"] and len(case["table"]["rows"]) < 2:
        return False
    return bool(case["reverse"]) or len(case["order"]) >= 2 or not case["order"]


def run_batch(seed, batch, tier):
    monitors.install()
    b = Batch(PID, seed, batch, tier)
    sq = backends.Sqlite()
    pg = backends.PgSurrogate()
    for i in range(N[tier] // NB[tier]):
        try:
            with time_limit(30):
                case = gen_case(b.rng, tier)
                b.evaluation()
                ok = judge(b, case, sq, pg)
                if ok and nontrivial(case):
                    b.sig(f"{case['fn']}|{len(case['partition'])}|{','.join(case['order'])}|{','.join(case['reverse'])}|{','.join(sorted(ok))}")
                b.sample({"case": {k: v for k, v in case.items() if k != "table"}, "rows": case["table"]["rows"][:6]}, limit=1)
        except CaseTimeout:
            b.count("case_timeout")
        except Exception as ex:
            b.count("harness_error", type(ex).__name__ + ":" + str(ex)[:120])
    sq.close()
    pg.close()
    return b.result()


def replay(v):
    c = v.get("case") or {}
    if "fn" not in c:
        return None
    b = Batch(PID, 0, 0, "quick")
    sq, pg = backends.Sqlite(), backends.PgSurrogate()
    try:
        judge(b, c, sq, pg)
    finally:
        sq.close(); pg.close()
    want = c.get("backend")
    for x in b.violations:
        if want is None or (x.get("case") or {}).get("backend") == want:
            return x["kind"] + ": " + x["detail"]
    return None


def inconclusive(counters, sigs, tier):
    f = counters.get("functions", {})
    for fn in ORDERED + UNORDERED:
        if f.get(fn, {}).get("pandas", 0) < 5:
            return f"function {fn} compared on Pandas only {f.get(fn, {}).get('pandas', 0)} times"
    for fn in SUPPORT["sqlite"]:
        if f.get(fn, {}).get("sqlite", 0) < 5:
            return f"function {fn} compared on SQLite only {f.get(fn, {}).get('sqlite', 0)} times"
    if counters.get("cells_compared", 0) < 2000:
        return "fewer than 2000 cells compared"
    return None
