"""C09 — aggregation returns one row per group, and one row without grouping.

Decider: an invariant checked at a hook on every project / windowed-extend step the Pandas and Polars
executors run (vf.monitors.install_step_hooks: the node's input is re-materialised, then row counts vs
distinct key combinations -- null is a key value -- and per-group reference values are compared); for
SQL every project / windowed-extend node of the recipe is run as its own root, next to its source,
on SQLite and on the PostgreSQL-dialect surrogate and the same invariant is applied.
"""
from vf import backends, monitors
from vf import build as B
from vf import diff
from vf.gen import recipes as R
from vf.util import Batch, exc_str, time_limit, CaseTimeout

PID = "C09"
LEVEL = "exploration"
RULE = (
    "random pipelines containing project / windowed extend (keys with null probability up to 1, empty inputs, "
    "single-group inputs; the shape 'ungrouped or grouped project whose outputs are then overwritten or dropped' is "
    "appended with boosted probability); invariant at every executed project/window node: rows out == distinct key "
    "combinations of the node's input (null a key of its own), exactly one row without group_by (also on empty "
    "input), window keeps every row, per-group sum/min/max/count/size/mean equal a reference over that group; "
    "non-trivial = node has a null key value, an empty input, or all its outputs are pruned downstream; distinct = "
    "distinct (backend, node kind, #keys, null-key?, empty-input?, pruned?, aggregate set)"
)
ASSUMPTIONS = [
    "sum over a group without a non-null value is not compared (accepted convention); values of ordered window "
    "functions are C27's business",
    "the node input used for SQL is the SQL result of the node's source (so a wrong source is C01's business)",
]

N = {"quick": 1400, "thorough": 50000}
NB = {"quick": 16, "thorough": 64}


def plan(tier):
    # thorough: one extra batch runs the repository's own test suite under the contracts (vf/suite_stage.py)
    return {"batches": NB[tier] + (1 if tier == "thorough" else 0), "batch_timeout_s": 3000}


def profile(tier, rng):
    return R.Profile(allow=R.HAZARDS - {"null_order"}, max_depth=6 if tier == "quick" else rng.choice([5, 9, 12]),
                     ops={"extend": 3, "wextend": 4, "owextend": 1, "project": 5, "select_rows": 2, "select_columns": 1,
                          "drop_columns": 1, "rename_columns": 1, "map_columns": 1, "order_rows": 1, "natural_join": 1,
                          "concat_rows": 1},
                     agg_methods=["sum", "mean", "min", "max", "count", "size", "_size", "one_sum"])


def append_pruned_shape(g, st, rng):
    """... .project(...) followed by a step that overwrites or drops every aggregate output"""
    r = g.step_project(st)
    if r is None:
        return st, False
    step, kinds = r
    if not step["ops"]:
        return st, False
    try:
        fr = g.apply(st, step)
    except Exception:
        return st, False
    node = dict(step)
    node["src"] = st.node
    st2 = R.St(node, fr, kinds)
    outs = [c for c, _ in step["ops"]]
    keys = step.get("group_by") or []
    how = rng.choice(["overwrite", "drop", "select-keys"]) if keys else "overwrite"
    if how == "overwrite":
        step2 = {"op": "extend", "ops": [[c, ["lit", 1]] for c in outs]}
        k2 = dict(kinds)
        for c in outs:
            k2[c] = "i"
    elif how == "drop":
        step2 = {"op": "drop_columns", "cols": outs}
        k2 = {k: kinds[k] for k in keys}
    else:
        step2 = {"op": "select_columns", "cols": list(keys)}
        k2 = {k: kinds[k] for k in keys}
    try:
        fr2 = g.apply(st2, step2)
    except Exception:
        return st2, False
    node2 = dict(step2)
    node2["src"] = st2.node
    return R.St(node2, fr2, k2), True


def node_sig(backend, ops_node, inp, pruned):
    import data_algebra.expr_rep as er

    keys = list(ops_node.group_by) if ops_node.node_name == "ProjectNode" else list(ops_node.partition_by)
    nullkey = False
    try:
        for k in keys:
            if bool(inp[k].isnull().any()):
                nullkey = True
    except Exception:
        pass
    n_in = inp.shape[0]
    aggs = sorted({e.op for e in ops_node.ops.values() if isinstance(e, er.Expression)})
    nontrivial = nullkey or n_in == 0 or pruned
    return nontrivial, f"{backend}|{ops_node.node_name}|k{len(keys)}|null={nullkey}|empty={n_in == 0}|pruned={pruned}|{','.join(aggs)}"


def sql_nodes_check(b, be_name, be, case, ops_by_node, frames):
    """run every project / windowed-extend node as its own root on the SQL backend"""
    for node in B.walk(case["recipe"]):
        if node["op"] not in ("project", "extend"):
            continue
        nops = ops_by_node[id(node)]
        if nops.node_name == "ExtendNode" and not (nops.windowed_situation or nops.partition_by or nops.order_by):
            continue
        if nops.node_name not in ("ProjectNode", "ExtendNode"):
            continue  # builder merged/eliminated the step
        try:
            src_ops = nops.sources[0]
            inp = be.run(src_ops, frames)
            res = be.run(nops, frames)
        except Exception as ex:
            b.count("sql_node_raised", be_name + ":" + type(ex).__name__)
            continue
        b.count("sql_nodes_checked", be_name)
        for f in monitors.check_agg_node(nops, inp, res, be_name):
            b.violation("aggregation-cardinality", f"{be_name}: {f}\nnode: {nops.to_python(pretty=False).strip()[-600:]}",
                        case=diff.case_json({"tables": case["tables"], "recipe": node, "final_order": None}, {"backend": be_name}))
        nt, sig = node_sig(be_name, nops, inp, False)
        if nt:
            b.sig(sig)


def run_batch(seed, batch, tier):
    if batch == NB[tier]:
        from vf import suite_stage

        b = Batch(PID, seed, batch, tier)
        suite_stage.run(b, PID)
        return b.result()
    monitors.install()
    monitors.install_step_hooks()
    b = Batch(PID, seed, batch, tier)
    sq = backends.Sqlite()
    pg = backends.PgSurrogate()
    gl = {}
    for i in range(N[tier] // NB[tier]):
        monitors.OBS.reset_case()
        try:
            with time_limit(40):
                nps = b.rng.choice([(0, 0.2, 0.6), (0.6, 1), (0, 0, 0.2, 0.6)])
                case, st = diff.new_case(b.rng, profile(tier, b.rng), tier, gl, null_ps=nps)
                pruned = False
                if b.rng.random() < 0.35:
                    g = R.Gen(b.rng, case["tables"], profile(tier, b.rng), gl)
                    st2, pruned = append_pruned_shape(g, st, b.rng)
                    case["recipe"] = st2.node
                    case["final_order"] = None
                memo = {}
                ops = B.build(case["recipe"], memo=memo)
                frames = diff.used_frames(case)
                b.evaluation()
                monitors.OBS.failures = []
                # Pandas and Polars: hooks observe every executed project/window step
                for be_name in ("pandas", "polars", "polars-lazy", "polars-eager-model"):
                    try:
                        if be_name == "pandas":
                            res = backends.run_pandas(ops, frames)
                        else:
                            res = backends.run_polars(ops, frames, lazy=be_name.endswith("lazy"),
                                                      eager_model=be_name.endswith("eager-model"))
                        b.count("executor_runs", be_name)
                    except Exception as ex:
                        b.count("raised", be_name + ":" + type(ex).__name__)
                    for f in monitors.drain(b, "C09"):
                        b.violation("aggregation-cardinality", f"{f['where']}: {f['detail']}\npipeline: {diff.describe(case)}",
                                    case=diff.case_json(case, {"backend": be_name}))
                # whole-pipeline shape: project (+ row preserving overwrite/drop) must still be 1 row / 1 per key
                if pruned:
                    b.count("pruned_shapes")
                    proj_node = case["recipe"]["src"]
                    keys = proj_node.get("group_by") or []
                    for be_name, be in (("sqlite", sq), ("pg-surrogate", pg)):
                        try:
                            r = be.run(ops, frames)
                            # expected cardinality from the same backend's result of the project's own source
                            src_res = be.run(memo[id(proj_node["src"])], frames)
                        except Exception as ex:
                            b.count("raised", be_name + ":" + type(ex).__name__)
                            continue
                        if keys:
                            from vf.compare import to_rows
                            exp_rows = len(set(to_rows(src_res, keys)))
                        else:
                            exp_rows = 1
                        b.count("pruned_shape_checked", be_name)
                        if r.shape[0] != exp_rows:
                            b.violation("aggregation-cardinality",
                                        f"{be_name}: pipeline ending in project + overwrite/drop of its outputs returned "
                                        f"{r.shape[0]} rows, expected {exp_rows}\npipeline: {diff.describe(case)}",
                                        case=diff.case_json(case, {"backend": be_name}))
                        else:
                            b.sig(f"{be_name}|pruned-shape|{case['recipe']['op']}|keys={len(case['recipe']['src'].get('group_by') or [])}|empty={st.frame.shape[0] == 0}")
                sql_nodes_check(b, "sqlite", sq, case, memo, frames)
                sql_nodes_check(b, "pg-surrogate", pg, case, memo, frames)
        except CaseTimeout:
            b.count("case_timeout")
            continue
        except Exception as ex:
            b.count("harness_error", type(ex).__name__)
            continue
        b.sample({"pipeline": diff.describe(case), "tables": case["tables"]}, limit=1)
    # signatures for the executor hooks come from the hook counters
    calls = dict(monitors.OBS.calls)
    for k, v in calls.items():
        if k.startswith("c09:") and ("null-key" in k or "empty-input" in k):
            b.sig("hook|" + k)
    b.counters["generator"] = gl
    b.counters["monitor_calls"] = calls
    sq.close()
    pg.close()
    return b.result()


def inconclusive(counters, sigs, tier):
    if tier == "thorough" and counters.get("suite_stage", {}).get("ran", 0) == 0:
        return "the repository-suite-under-monitors stage did not run: %s" % counters.get("suite_stage")
    mc = counters.get("monitor_calls", {})
    need = ["c09:project-group:pandas", "c09:project-nogroup:pandas", "c09:window:pandas", "c09:project-group:polars",
            "c09:window:polars", "c09:null-key-group:pandas", "c09:values-compared:pandas", "c09:values-compared:sqlite",
            "c09:project-nogroup-empty-input:pandas"]
    miss = [k for k in need if mc.get(k, 0) == 0]
    if miss:
        return "hook situations never observed: %s" % miss
    if counters.get("sql_nodes_checked", {}).get("sqlite", 0) < 50:
        return "too few SQL node checks"
    he = sum(v for k, v in mc.items() if k.startswith("c09:hook-error"))
    if he > 0.2 * max(1, mc.get("c09:project-group:pandas", 0)):
        return f"hook errors: {he}"
    return None


def replay(v):
    if "suite_test" in (v.get("case") or {}):
        from vf import suite_stage

        return suite_stage.replay(v, PID)
    monitors.install()
    monitors.install_step_hooks()
    c = v.get("case") or {}
    if "recipe" not in c:
        return None
    ops = B.build(c["recipe"])
    frames = diff.used_frames(c)
    be = c.get("backend", "pandas")
    monitors.OBS.failures = []
    try:
        if be == "pandas":
            backends.run_pandas(ops, frames)
        elif be.startswith("polars"):
            backends.run_polars(ops, frames, lazy=be.endswith("lazy"), eager_model=be.endswith("eager-model"))
        else:
            eng = backends.Sqlite() if be == "sqlite" else backends.PgSurrogate()
            if ops.node_name in ("ProjectNode", "ExtendNode"):
                inp = eng.run(ops.sources[0], frames)
                res = eng.run(ops, frames)
                fs = monitors.check_agg_node(ops, inp, res, be)
                return fs[0] if fs else None
    except Exception as ex:
        return None
    fs = [f for f in monitors.OBS.failures if f["property"] == "C09"]
    return fs[0]["detail"] if fs else None
