"""C25 — the evaluation result cache is transparent.

Monitor: store/get histories on the real ResultCache stepped against an exact-content model
(hit iff the model holds that key; value equal to what was stored; later gets unaffected by
mutating returned/stored/input frames), plus a key-collision search over perturbed data maps.
"""
import copy

from vf.util import Batch, exc_str

PID = "C25"
LEVEL = "exploration"
RULE = (
    "histories of store/get/mutate-returned/mutate-stored/mutate-inputs over a pool of (dialect, sql, data map) keys "
    "and perturbed variants (cell changed, column renamed, rows swapped, row added/removed, column added, table "
    "renamed/added, sql edited, other dialect), stepped against an exact-content dict model; plus direct "
    "make_cache_key collision search on (base, perturbed) pairs; non-trivial = history has a hit after a mutation or "
    "a miss on a perturbed key / the pair differs in exactly one aspect; distinct = distinct (op-kind sequence) or "
    "(perturbation kind, column kinds)"
)
ASSUMPTIONS = [
    "tables equal in the property's sense but not bit-identical (1 vs 1.0, True vs 1, None vs NaN, index-only "
    "differences) are never asserted either way",
]


def canon_frame(d):
    cols = tuple(str(type(c).__name__) + ":" + str(c) for c in d.columns)
    rows = []
    for r in d.itertuples(index=False, name=None):
        rows.append(tuple(cell_rep(v) for v in r))
    return (cols, tuple(rows))


def cell_rep(v):
    import math

    if v is None:
        return "null"
    if isinstance(v, float) and math.isnan(v):
        return "null"
    try:
        import pandas

        if v is pandas.NA or v is pandas.NaT:
            return "null"
    except Exception:
        pass
    if isinstance(v, bool) or type(v).__name__ == "bool_":
        # True == 1 and False == 0: tables that differ only in bool-vs-number representation are equal in the
        # property's sense and are never asserted either way
        return "n:" + repr(float(bool(v)))
    if isinstance(v, (int,)) or "int" in type(v).__name__:
        return "n:" + repr(float(v))
    if isinstance(v, float) or "float" in type(v).__name__:
        return "n:" + repr(float(v))
    return type(v).__name__ + ":" + repr(v)


def canon_map(dm):
    return tuple(sorted((k, canon_frame(v)) for k, v in dm.items()))


# ---------------------------------------------------------------- generation
def gen_col(rng, kind, n):
    if kind == "int":
        return [rng.randint(-3, 3) for _ in range(n)]
    if kind == "float":
        return [rng.choice([0.5, -1.25, 3.0, 1e9, 0.1]) for _ in range(n)]
    if kind == "str":
        return [rng.choice(["a", "b", "", "1", "A", " a"]) for _ in range(n)]
    if kind == "bool":
        return [rng.random() < 0.5 for _ in range(n)]
    if kind == "fnull":
        return [rng.choice([0.5, None, 2.0]) for _ in range(n)]
    if kind == "snull":
        return [rng.choice(["a", None, "b"]) for _ in range(n)]
    if kind == "mixed":
        return [rng.choice([1, "1", "a", 2.5, "2.5"]) for _ in range(n)]
    raise ValueError(kind)


KINDS = ["int", "float", "str", "bool", "fnull", "snull"]


def gen_map(rng, allow_mixed):
    """data map as plain python: {table: {col: (kind, [values])}}"""
    dm = {}
    for t in rng.sample(["d", "e", "t1"], rng.randint(1, 2)):
        n = rng.choice([0, 1, 2, 3, 5])
        cols = {}
        for c in rng.sample(["x", "y", "z", "g"], rng.randint(1, 3)):
            kind = rng.choice(KINDS + (["mixed"] if allow_mixed else []))
            cols[c] = (kind, gen_col(rng, kind, n))
        dm[t] = cols
    return dm


def realize(dm):
    import pandas

    return {t: pandas.DataFrame({c: list(v) for c, (k, v) in cols.items()}) for t, cols in dm.items()}


def new_value(rng, kind, old):
    for _ in range(20):
        v = gen_col(rng, kind if kind != "mixed" else "mixed", 1)[0]
        if cell_rep(v) != cell_rep(old) and v is not None and old is not None:
            # keep the pair outside the 'equal in the property's sense' zone
            if isinstance(v, (int, float)) and isinstance(old, (int, float)) and float(v) == float(old):
                continue
            return v
        if old is None and v is not None:
            return v
    return None


def perturb(rng, dm):
    """returns (kind, new_dm) with new_dm differing in exactly one aspect, or None"""
    dm2 = copy.deepcopy(dm)
    t = rng.choice(sorted(dm2))
    cols = dm2[t]
    n = len(next(iter(cols.values()))[1])
    kind = rng.choice(["cell", "colname", "swaprows", "addrow", "delrow", "addcol", "tablename", "addtable", "swapcolnames"])
    if kind == "cell":
        if n == 0:
            return None
        c = rng.choice(sorted(cols))
        i = rng.randrange(n)
        k, vals = cols[c]
        nv = new_value(rng, k, vals[i])
        if nv is None:
            return None
        vals[i] = nv
        return "cell:" + k, dm2
    if kind == "colname":
        c = rng.choice(sorted(cols))
        newc = rng.choice(["q", c.upper(), c + " ", "x1"])
        if newc in cols:
            return None
        dm2[t] = {(newc if k == c else k): v for k, v in cols.items()}
        return "colname", dm2
    if kind == "swaprows":
        if n < 2:
            return None
        i, j = rng.sample(range(n), 2)
        if all(cell_rep(v[i]) == cell_rep(v[j]) for k, v in cols.values()):
            return None
        for c in cols:
            v = cols[c][1]
            v[i], v[j] = v[j], v[i]
        return "swaprows", dm2
    if kind == "addrow":
        for c in cols:
            k, v = cols[c]
            v.append(gen_col(rng, k, 1)[0])
        return "addrow", dm2
    if kind == "delrow":
        if n == 0:
            return None
        i = rng.randrange(n)
        for c in cols:
            del cols[c][1][i]
        return "delrow", dm2
    if kind == "addcol":
        newc = "w"
        k = rng.choice(KINDS)
        cols[newc] = (k, gen_col(rng, k, n))
        return "addcol", dm2
    if kind == "tablename":
        newt = t + "2"
        dm2[newt] = dm2.pop(t)
        return "tablename", dm2
    if kind == "addtable":
        dm2["extra"] = {"x": ("int", [1])}
        return "addtable", dm2
    if kind == "swapcolnames":
        if len(cols) < 2 or n == 0:
            return None
        c1, c2 = rng.sample(sorted(cols), 2)
        if [cell_rep(v) for v in cols[c1][1]] == [cell_rep(v) for v in cols[c2][1]]:
            return None
        order = list(cols)
        new = {}
        for c in order:
            new[c] = cols[c2] if c == c1 else cols[c1] if c == c2 else cols[c]
        dm2[t] = new
        return "swapcolnames", dm2
    return None


def is_text_equal_mixed_pair(dm, dm2):
    """mechanism of the recorded finding: the two maps differ only in cells of mixed-type (object) columns whose
    str() texts coincide (e.g. 1 vs '1')"""
    if set(dm) != set(dm2):
        return False
    found = False
    for t in dm:
        if list(dm[t]) != list(dm2[t]):
            return False
        for c in dm[t]:
            k1, v1 = dm[t][c]
            k2, v2 = dm2[t][c]
            if len(v1) != len(v2):
                return False
            for a, b in zip(v1, v2):
                if cell_rep(a) != cell_rep(b):
                    if str(a) == str(b) and (k1 == "mixed" or k2 == "mixed") and (mixed_object(v1) or mixed_object(v2)):
                        found = True
                    else:
                        return False
    return found


def mixed_object(vals):
    ts = {type(v) for v in vals if v is not None}
    return len(ts) > 1


SQLS = ["SELECT 1", "select 1", "SELECT 1 ", "SELECT  1", "SELECT 2", "SELECT 1 -- x"]


def models():
    import data_algebra.SQLite
    import data_algebra.PostgreSQL

    return [data_algebra.SQLite.SQLiteModel(), data_algebra.PostgreSQL.PostgreSQLModel()]


def collision_pairs(b, ec, rng, n):
    ms = models()
    for _ in range(n):
        allow_mixed = rng.random() < 0.2
        dm = gen_map(rng, allow_mixed)
        p = perturb(rng, dm)
        if p is None:
            b.count("perturbation_not_applicable")
            continue
        kind, dm2 = p
        if canon_map(realize(dm)) == canon_map(realize(dm2)):
            b.count("perturbation_left_tables_equal")
            continue
        b.evaluation()
        b.count("pairs", kind.split(":")[0])
        try:
            k1 = ec.make_cache_key(db_model=ms[0], sql=SQLS[0], data_map=realize(dm))
            k1b = ec.make_cache_key(db_model=ms[0], sql=SQLS[0], data_map=realize(dm))
            k2 = ec.make_cache_key(db_model=ms[0], sql=SQLS[0], data_map=realize(dm2))
        except Exception as ex:
            b.violation("make_cache_key-raised", f"{dm}: {exc_str(ex)}", case={"dm": repr(dm)})
            continue
        case = {"base": repr(dm), "perturbed": repr(dm2), "kind": kind}
        if k1 != k1b or hash(k1) != hash(k1b):
            b.violation("key-not-deterministic", f"same data map gave two keys: {case}", case=case)
        elif k1 == k2:
            fk = "mixed-object-column-text-equal" if is_text_equal_mixed_pair(dm, dm2) else None
            b.violation("key-collision", f"different data maps share a key ({kind}): base={dm} perturbed={dm2}",
                        case=case, finding_key=fk)
        else:
            kinds = sorted({k for t in dm.values() for (k, v) in t.values()})
            b.sig("pair|" + kind + "|" + ",".join(kinds))
            b.sample(case, limit=2)
    # sql / dialect perturbations
    dm = gen_map(rng, False)
    base = ec.make_cache_key(db_model=ms[0], sql=SQLS[0], data_map=realize(dm))
    for s in SQLS[1:]:
        b.evaluation()
        b.count("pairs", "sql")
        if ec.make_cache_key(db_model=ms[0], sql=s, data_map=realize(dm)) == base:
            b.violation("key-collision", f"sql {SQLS[0]!r} and {s!r} share a key", case={"sql": s})
        else:
            b.sig("pair|sql|" + s)
    b.evaluation()
    b.count("pairs", "dialect")
    if ec.make_cache_key(db_model=ms[1], sql=SQLS[0], data_map=realize(dm)) == base:
        b.violation("key-collision", "SQLite and PostgreSQL models share a key", case={})
    else:
        b.sig("pair|dialect")


def frames_equal_exact(a, c):
    return list(a.columns) == list(c.columns) and canon_frame(a) == canon_frame(c) and \
        [str(x) for x in a.dtypes] == [str(x) for x in c.dtypes] and \
        [repr(x) for x in a.index] == [repr(x) for x in c.index]


def exact_sig(frames):
    return tuple((k, tuple(str(c) for c in f.columns), tuple(str(d) for d in f.dtypes),
                  tuple(tuple(repr(v) for v in r) for r in f.itertuples(index=False, name=None)))
                 for k, f in sorted(frames.items()))


def history(b, ec, rng, length):
    import pandas

    ms = models()
    cache = ec.ResultCache()
    model = {}
    # key pool: base maps and perturbed variants
    pool = []
    pool_keys = set()

    def add(dmx):
        # pool members are pairwise different in the property's sense, so the exact-content model is unambiguous
        k = canon_map(realize(dmx))
        if k not in pool_keys:
            pool_keys.add(k)
            pool.append(dmx)

    for _ in range(2):
        dm = gen_map(rng, False)
        add(dm)
        for _ in range(2):
            p = perturb(rng, dm)
            if p is not None:
                add(p[1])
    # live data maps: frame objects the caller keeps, re-uses for several operations and changes in place
    live = [realize(dmx) for dmx in pool]
    model_exact = {}
    stored_combos = []
    returned = []
    stored_src = []
    opnames = []
    hit_after_mut = False
    miss_seen = False
    mutated = False
    b.evaluation()
    for step in range(length):
        op = rng.choice(["store", "store", "get", "get", "get", "mut_returned", "mut_stored", "mut_inputs", "mut_live"])
        pi = rng.randrange(len(pool))
        dm = pool[pi]
        m = rng.choice(ms)
        sql = rng.choice(SQLS[:3])
        use_live = rng.random() < 0.5
        if op == "get" and stored_combos and rng.random() < 0.6:
            # look up something that was stored (possibly changed in place since)
            pi, m, sql = rng.choice(stored_combos)
            dm = pool[pi]
        if op == "store":
            stored_combos.append((pi, m, sql))
        frames = live[pi] if use_live else realize(dm)
        opnames.append(op + ("@live%d" % pi if (use_live and op in ("store", "get")) or op == "mut_live" else ""))
        b.count("ops", op)
        if op == "mut_live":
            # in-place change of a frame the caller keeps (same object, same shape, same column names)
            for f in live[pi].values():
                if f.shape[0] >= 2:
                    j = rng.randrange(f.shape[1])
                    if rng.random() < 0.5:
                        if cell_rep(f.iloc[0, j]) != cell_rep(f.iloc[-1, j]):
                            f.iloc[0, j] = f.iloc[-1, j]
                            mutated = True
                            b.count("live_mutations", "cell")
                    else:
                        first, last = f.iloc[0].tolist(), f.iloc[-1].tolist()
                        if [cell_rep(v) for v in first] != [cell_rep(v) for v in last]:
                            for jj in range(f.shape[1]):
                                f.iloc[0, jj] = last[jj]
                                f.iloc[-1, jj] = first[jj]
                            mutated = True
                            b.count("live_mutations", "swaprows")
            continue
        mk = (str(m), sql, canon_map(frames))
        ex_sig = exact_sig(frames)
        if mk in model_exact and model_exact[mk] != ex_sig:
            # equal in the property's sense but not identical (1 vs 1.0 after an in-place change): never asserted
            b.count("ambiguous_equal_not_identical")
            continue
        ctx = f"step {step} op {op} history={opnames}"
        try:
            if op == "store":
                model_exact[mk] = ex_sig
                n = rng.randint(0, 3)
                res = pandas.DataFrame({"r": [rng.randint(0, 9) for _ in range(n)], "s": [rng.choice("ab") for _ in range(n)]})
                if n > 0 and rng.random() < 0.4:
                    # a result that was filtered / sorted on the Pandas side carries its own row labels
                    res.index = rng.choice([list(range(n, 0, -1)), [10 * i + 3 for i in range(n)], ["k%d" % i for i in range(n)]])
                    b.count("stored_results_with_own_index")
                cache.store(db_model=m, sql=sql, data_map=frames, res=res)
                model[mk] = res.copy()
                stored_src.append((res, frames))
            elif op == "get":
                try:
                    got = cache.get(db_model=m, sql=sql, data_map=frames)
                    hit = True
                except KeyError:
                    hit = False
                    got = None
                if hit != (mk in model):
                    fk = None
                    b.violation("cache-hit-mismatch", f"hit={hit} but model has key={mk in model}; {ctx}; dm={dm}",
                                case={"history": opnames, "dm": repr(dm)}, finding_key=fk)
                    return
                if hit:
                    if not frames_equal_exact(got, model[mk]):
                        b.violation("cache-value-mismatch",
                                    f"get returned {got.to_dict('list')} (index {list(got.index)}) expected "
                                    f"{model[mk].to_dict('list')} (index {list(model[mk].index)}); {ctx}",
                                    case={"history": opnames})
                        return
                    if any(got is r for r in returned) or any(got is s for s, _ in stored_src):
                        b.violation("cache-returned-shared-object", f"get returned an aliased frame; {ctx}",
                                    case={"history": opnames})
                        return
                    returned.append(got)
                    if mutated:
                        hit_after_mut = True
                else:
                    miss_seen = True
                b.count("gets", "hit" if hit else "miss")
            elif op == "mut_returned" and returned:
                r = rng.choice(returned)
                if r.shape[0] > 0:
                    r.loc[0, "r"] = -99
                    r["extra"] = 1
                    mutated = True
            elif op == "mut_stored" and stored_src:
                s, _ = rng.choice(stored_src)
                if s.shape[0] > 0:
                    s.loc[0, "r"] = -77
                    mutated = True
            elif op == "mut_inputs" and stored_src:
                _, fr = rng.choice(stored_src)
                for f in fr.values():
                    if f.shape[0] > 0:
                        f.iloc[0, 0] = f.iloc[-1, 0]
                        f["zz"] = 0
                        mutated = True
        except Exception as ex:
            b.violation("cache-op-raised", f"{exc_str(ex)}; {ctx}", case={"history": opnames})
            return
    if hit_after_mut or miss_seen:
        b.sig("hist|" + "|".join(opnames[:12]))


NB = {"quick": 8, "thorough": 16}
NH = {"quick": 2000, "thorough": 40000}
NP = {"quick": 4000, "thorough": 100000}


def plan(tier):
    return {"batches": NB[tier], "batch_timeout_s": 2400}


def run_batch(seed, batch, tier):
    import data_algebra.eval_cache as ec

    b = Batch(PID, seed, batch, tier)
    for _ in range(NH[tier] // NB[tier]):
        history(b, ec, b.rng, b.rng.randint(4, 25))
    collision_pairs(b, ec, b.rng, NP[tier] // NB[tier])
    return b.result()


def w_mixed():
    import pandas
    import data_algebra.eval_cache as ec

    m = models()[0]
    k1 = ec.make_cache_key(db_model=m, sql="q", data_map={"d": pandas.DataFrame({"x": [1, "a"]})})
    k2 = ec.make_cache_key(db_model=m, sql="q", data_map={"d": pandas.DataFrame({"x": ["1", "a"]})})
    if k1 == k2:
        return "data maps {'x': [1, 'a']} and {'x': ['1', 'a']} share a cache key"
    return None


WITNESSES = {"mixed-object-column-text-equal": w_mixed}


def inconclusive(counters, sigs, tier):
    g = counters.get("gets", {})
    if g.get("hit", 0) < 50 or g.get("miss", 0) < 50:
        return "hits/misses not both observed: %s" % g
    p = counters.get("pairs", {})
    need = ["cell", "colname", "swaprows", "addrow", "delrow", "addcol", "tablename", "addtable", "sql", "dialect"]
    miss = [k for k in need if p.get(k, 0) == 0]
    if miss:
        return "perturbation kinds never compared: %s" % miss
    return None
