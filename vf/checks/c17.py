"""C17 — record transforms are invertible and compose as documented; Pandas and Polars agree.

For random strict record specifications (1-2 control-table key columns, 1-3 value columns, 2-4 block rows, 0-2 record
keys, distinct content names) and conforming data (unique record keys, nulls in values, 0-6 records):
  * unpivot / pivot results equal a reference computed on lists of dicts;
  * m.inverse().transform(m.transform(X)) == X in both directions (row -> block -> row, block -> row -> block);
  * for a second layout of the same content names, m2.compose(m1) and m1 >> m2 equal applying m1 then m2;
  * the Polars executor returns the table the Pandas executor returns (transform on a Polars frame);
  * convert_records(m) in a pipeline gives m.transform(X);
  * pivot_specification / unpivot_specification and the keyed-column forms obey the same laws.
The caller's frame must be left untouched by transform() and by frame >> record_map (observed for C19 as well).
"""
import json

from vf import build as B
from vf import monitors
from vf.compare import frames_match
from vf.gen import records as RG
from vf.util import Batch, exc_str, time_limit, CaseTimeout

PID = "C17"
LEVEL = "exploration"
RULE = (
    "strict record specifications with 1-2 control key columns (distinct key tuples), 1-3 value columns, 2-4 block "
    "rows, 0-2 record keys; data of 0-6 records with unique record keys and nulls in values; per case: reference "
    "pivot/unpivot, both inverse round trips, composition with a second layout of the same content names (compose and "
    ">>), Polars vs Pandas, convert_records in a pipeline, pivot_/unpivot_specification helpers; non-trivial = control "
    "table has >= 2 value columns or >= 2 key columns or there are >= 2 records; distinct = distinct (shape of the "
    "control table, #record keys, #records, laws that were exercised)"
)
ASSUMPTIONS = ["the 40-line reference pivot/unpivot on lists of dicts", "Polars raising is a refusal (counted)"]

N = {"quick": 1000, "thorough": 40000}
NB = {"quick": 16, "thorough": 64}


def plan(tier):
    return {"batches": NB[tier], "batch_timeout_s": 3000}


def rm(blocks_in=None, blocks_out=None):
    return B.build_record_map({"blocks_in": blocks_in, "blocks_out": blocks_out, "strict": True})


def snapshot(f):
    return (f.copy(deep=True), list(f.columns), [str(d) for d in f.dtypes], f.index.copy())


def changed(snap, f):
    cp, cols, dts, idx = snap
    if list(f.columns) != cols:
        return f"columns {cols} -> {list(f.columns)}"
    if [str(d) for d in f.dtypes] != dts:
        return "dtypes changed"
    if not f.index.equals(idx):
        return f"index {list(idx)[:5]} -> {list(f.index)[:5]}"
    if not f.equals(cp):
        return "values changed"
    return None


def exotic_index(f, rng):
    """present the caller's frame with a non-default index (a filtered slice / labelled index), its columns in any
    left-to-right order and its rows in any order"""
    f = f.copy()
    cols = list(f.columns)
    rng.shuffle(cols)
    f = f[cols]
    if f.shape[0] > 1:
        idx = list(range(f.shape[0]))
        rng.shuffle(idx)
        f = f.iloc[idx].reset_index(drop=True)
    if f.shape[0] > 0:
        labels = list(range(10, 10 + 3 * f.shape[0], 3))
        rng.shuffle(labels)
        f.index = labels
    return f


def present_rows(f, rng, spec):
    """the same table with its rows in another order: canonical, any order, or ordered by the leading record key only
    (ORDER BY id: rows that tie on it stay in any order)"""
    how = rng.choice(["canonical", "shuffled", "lead-key-sorted"])
    if how == "canonical" or f.shape[0] < 2:
        return f.copy(), "canonical"
    idx = list(range(f.shape[0]))
    rng.shuffle(idx)
    g = f.iloc[idx].reset_index(drop=True)
    if how == "lead-key-sorted" and spec["record_keys"]:
        g = g.sort_values(by=[spec["record_keys"][0]], kind="stable").reset_index(drop=True)
    return g, how


def judge(b, case, rng):
    import polars as pl

    spec, rows = case["spec"], case["rows"]
    rowcols, blockcols = RG.row_columns(spec), RG.block_columns(spec)
    X = RG.to_frame(rows, rowcols)
    want_blocks = RG.ref_unpivot(rows, spec)
    WB = RG.to_frame(want_blocks, blockcols)
    laws = []

    def fail(kind, detail):
        b.violation(kind, detail + f"\nspec: {json.dumps(spec)[:700]}\nrows: {json.dumps(rows)[:500]}", case=case)
        return None

    try:
        m_out = rm(blocks_out=spec)   # rows -> blocks
        m_in = rm(blocks_in=spec)     # blocks -> rows
    except Exception as ex:
        b.count("spec_rejected", type(ex).__name__)
        return None
    # --- reference + caller's frame untouched
    Xc = exotic_index(X, rng)
    snap = snapshot(Xc)
    try:
        Bk = m_out.transform(Xc)
    except Exception as ex:
        return fail("transform-raised", f"rows->blocks: {exc_str(ex)}")
    ch = changed(snap, Xc)
    if ch:
        return fail("caller-frame-modified", f"RecordMap.transform changed the caller's frame: {ch}")
    m = frames_match(WB, Bk)
    if m:
        return fail("unpivot-differs-from-reference", m)
    laws.append("unpivot-ref")
    WBc = exotic_index(WB, rng)
    snap = snapshot(WBc)
    try:
        Rw = WBc >> m_in
    except Exception as ex:
        return fail("transform-raised", f"blocks->rows via >>: {exc_str(ex)}")
    ch = changed(snap, WBc)
    if ch:
        return fail("caller-frame-modified", f"frame >> record_map changed the caller's frame: {ch}")
    want_rows = RG.ref_pivot(want_blocks, spec)
    m = frames_match(RG.to_frame(want_rows, rowcols), Rw)
    if m:
        return fail("pivot-differs-from-reference", m)
    laws.append("pivot-ref")
    # --- inverse round trips
    try:
        back = m_out.inverse().transform(m_out.transform(X))
        m = frames_match(X, back)
        if m:
            return fail("inverse-roundtrip", f"rows -> blocks -> rows: {m}")
        back2 = m_in.inverse().transform(m_in.transform(WB))
        m = frames_match(WB, back2)
        if m:
            return fail("inverse-roundtrip", f"blocks -> rows -> blocks: {m}")
        laws.append("inverse")
    except Exception as ex:
        return fail("transform-raised", f"inverse round trip: {exc_str(ex)}")
    # --- composition with a second layout of the same content names
    spec2 = case.get("spec2")
    if spec2 is not None:
        try:
            spec_in = spec
            if case.get("relabel"):
                # the second map reads the same block columns but files the cells under permuted content names
                import copy as _copy

                spec_in = _copy.deepcopy(spec)
                nk = len(spec["control_table_keys"])
                names = RG.content_names(spec)
                perm = names[1:] + names[:1]
                it = iter(perm)
                for r in spec_in["control_table"]["rows"]:
                    for j in range(nk, len(r)):
                        r[j] = next(it)
                b.count("relabelled_compositions")
            m2 = B.build_record_map({"blocks_in": spec_in, "blocks_out": spec2, "strict": True})   # blocks -> blocks(spec2)
            seq = m2.transform(m_out.transform(X))
            if spec_in is spec:
                want2 = RG.to_frame(RG.ref_unpivot(rows, spec2), RG.block_columns(spec2))
            else:
                want2 = RG.to_frame(RG.ref_unpivot(RG.ref_pivot(want_blocks, spec_in), spec2), RG.block_columns(spec2))
            m = frames_match(want2, seq)
            if m:
                return fail("block-to-block-differs-from-reference", m)
            for how, comp in (("compose", lambda: m2.compose(m_out)), (">>", lambda: m_out >> m2)):
                c = comp()
                if c is None:
                    b.count("compose_returned_none")
                    continue
                got = c.transform(X)
                m = frames_match(seq, got)
                if m:
                    return fail("composition-differs-from-sequential", f"{how}: {m}")
            laws.append("compose")
        except Exception as ex:
            return fail("transform-raised", f"composition: {exc_str(ex)}")
    # --- Polars vs Pandas
    for name, frame, mp in (("rows->blocks", X, m_out), ("blocks->rows", WB, m_in)):
        frame, how = present_rows(frame, rng, spec)
        b.count("polars_presentations", how)
        try:
            pf = pl.from_pandas(frame) if frame.shape[1] else None
            got = mp.transform(pf)
        except Exception as ex:
            b.count("polars_refusals", name + ":" + type(ex).__name__)
            continue
        ref = mp.transform(frame)
        m = frames_match(ref, got)
        b.count("polars_comparisons")
        if m:
            return fail("polars-differs-from-pandas", f"{name}: {m}")
        if "polars" not in laws:
            laws.append("polars")
    # --- in a pipeline
    try:
        from data_algebra.view_representations import TableDescription

        ops = TableDescription(table_name="X", column_names=rowcols).convert_records(m_out)
        got = ops.eval({"X": X.copy()})
        m = frames_match(WB, got)
        if m:
            return fail("pipeline-convert_records-differs", m)
        if set(got.columns) != set(ops.column_names):
            return fail("pipeline-convert_records-differs", f"declared {list(ops.column_names)} got {list(got.columns)}")
        laws.append("pipeline")
    except Exception as ex:
        return fail("transform-raised", f"convert_records in a pipeline: {exc_str(ex)}")
    # --- helper constructors
    if len(spec["control_table_keys"]) == 1 and len(spec["control_table"]["cols"]) == 2 and case.get("helper"):
        import data_algebra.cdata as cdata

        names = RG.content_names(spec)
        try:
            up = cdata.unpivot_specification(row_keys=spec["record_keys"], col_name_key="cn", col_value_key="cv", value_cols=names)
            pv = cdata.pivot_specification(row_keys=spec["record_keys"], col_name_key="cn", col_value_key="cv", value_cols=names)
            long = up.transform(X)
            want_long = [dict({k: r[k] for k in spec["record_keys"]}, cn=n, cv=r[n]) for r in rows for n in names]
            m = frames_match(RG.to_frame(want_long, spec["record_keys"] + ["cn", "cv"]), long)
            if m:
                return fail("unpivot_specification-differs", m)
            m = frames_match(X, pv.transform(long))
            if m:
                return fail("pivot_specification-differs", m)
            laws.append("helpers")
        except Exception as ex:
            return fail("transform-raised", f"pivot/unpivot_specification: {exc_str(ex)}")
    return laws


def gen_case(rng):
    spec = RG.gen_spec(rng)
    rows = RG.gen_rowrecs(rng, spec)
    spec2 = None
    if rng.random() < 0.5:
        s2 = RG.gen_spec(rng, tag="b", content=RG.content_names(spec), n_record_keys=len(spec["record_keys"]))
        if s2 is not None:
            spec2 = s2
    for sp in (spec, spec2):
        if sp is not None and rng.random() < 0.4:
            # the user's own layout of the control table: key columns anywhere, keys listed in any order
            order = list(sp["control_table"]["cols"])
            rng.shuffle(order)
            sp["col_order"] = order
            if len(sp["control_table_keys"]) > 1 and rng.random() < 0.5:
                sp["control_table_keys"] = list(reversed(sp["control_table_keys"]))
    helper = rng.random() < 0.5
    if helper and rng.random() < 0.5:
        # the simple one-key one-value layout the helper constructors build
        names = [f"m{i}" for i in range(rng.randint(2, 4))]
        spec = {"record_keys": spec["record_keys"], "control_table_keys": ["cn"],
                "control_table": {"cols": ["cn", "cv"], "rows": [[n, n] for n in names]}, "strict": True}
        rows = RG.gen_rowrecs(rng, spec)
        spec2 = None
    return {"spec": spec, "rows": rows, "spec2": spec2, "helper": helper, "relabel": rng.random() < 0.5}


def run_batch(seed, batch, tier):
    monitors.install()
    b = Batch(PID, seed, batch, tier)
    for i in range(N[tier] // NB[tier]):
        try:
            with time_limit(60):
                case = gen_case(b.rng)
                b.evaluation()
                laws = judge(b, case, b.rng)
                if laws:
                    for l in laws:
                        b.count("laws", l)
                    spec = case["spec"]
                    nk = len(spec["control_table_keys"])
                    shape = (len(spec["control_table"]["rows"]), len(spec["control_table"]["cols"]) - nk, nk)
                    if shape[1] >= 2 or nk >= 2 or len(case["rows"]) >= 2:
                        b.sig(f"{shape}|{len(spec['record_keys'])}|{len(case['rows'])}|{','.join(laws)}")
                    b.sample({"spec": case["spec"], "rows": case["rows"][:3]}, limit=1)
        except CaseTimeout:
            b.count("case_timeout")
        except Exception as ex:
            b.count("harness_error", type(ex).__name__ + ":" + str(ex)[:120])
    return b.result()


def replay(v):
    import random

    c = v.get("case") or {}
    if "spec" not in c:
        return None
    b = Batch(PID, 0, 0, "quick")
    judge(b, c, random.Random(0))
    return (b.violations[0]["kind"] + ": " + b.violations[0]["detail"]) if b.violations else None


def inconclusive(counters, sigs, tier):
    l = counters.get("laws", {})
    for k in ("unpivot-ref", "pivot-ref", "inverse", "compose", "polars", "pipeline", "helpers"):
        if l.get(k, 0) < 20:
            return f"law {k} exercised only {l.get(k, 0)} times"
    return None
