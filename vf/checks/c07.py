"""C07 — composition equals sequential application, is associative; dom/cod describe the composed arrow.

Workload: a over generated tables; b generated (data-aware) over a table description `mid` whose columns are
exactly a's produced columns (rows = a's materialised result), possibly joining against the original tables;
c likewise over b's result.  Oracle: sequential application on the Pandas executor,
    b.eval({mid: a.eval(D)} + other tables)
must equal the evaluation of the composed pipeline obtained through each of the four public routes
    a >> b | DataOpArrow(a) >> DataOpArrow(b) | b.replace_leaves({mid: a}) | b.eval({mid: a, ...descriptions})
on D; every route must return (none may raise); (a>>b)>>c and a>>(b>>c) must both give the sequential result (whether they also compare equal is counted, not required);
dom/cod of the composed arrow must be a's input columns / b's produced columns.
"""
from vf import monitors
from vf import build as B
from vf import diff
from vf.compare import frames_match, to_rows
from vf.gen import core, recipes as R
from vf.util import Batch, exc_str, time_limit, CaseTimeout

PID = "C07"
LEVEL = "exploration"
RULE = (
    "pairs (a, b) and triples (a, b, c) of random pipelines (each 1-5 steps quick / 1-8 thorough, all operator kinds "
    "incl. select_rows, map_columns with deletions, interior order_rows, windowed extends with partition_by=1, joins "
    "and concats whose other leg reads the boundary table or an original table); b is built over a description of "
    "exactly a's produced columns; non-trivial = b has >= 1 operator and every route returned; distinct = distinct "
    "(operator sequence of a, operator sequence of b, route set)"
)
ASSUMPTIONS = ["sequential application on the Pandas executor is the meaning of composition"]

N = {"quick": 1200, "thorough": 50000}
NB = {"quick": 16, "thorough": 64}


def plan(tier):
    return {"batches": NB[tier], "batch_timeout_s": 3000}


def profile(tier, rng, first):
    ops = {"extend": 4, "wextend": 2, "owextend": 1, "project": 1 if first else 2, "select_rows": 3, "select_columns": 2,
           "drop_columns": 2, "rename_columns": 2, "map_columns": 3, "order_rows": 2, "natural_join": 2, "concat_rows": 1, "convert_records": 1}
    return R.Profile(allow=R.HAZARDS - {"limit0"}, max_depth=(5 if tier == "quick" else rng.choice([4, 8])), min_depth=1,
                     ops=ops, self_join_p=0.2, final_order_p=0.1, pair_keys_p=0.25)


def py(v):
    from vf.compare import norm_cell

    return norm_cell(v)


def frame_to_table(name, frame, kinds):
    cols = [[c, kinds[c]] for c in frame.columns]
    rows = []
    data = {c: frame[c].tolist() for c in frame.columns}
    for i in range(frame.shape[0]):
        r = []
        for c in frame.columns:
            v = py(data[c][i])
            if kinds[c] == "b" and v is not None:
                v = bool(v)
            if kinds[c] == "i" and isinstance(v, float) and v == int(v):
                v = int(v)
            r.append(v)
        rows.append(r)
    return {"name": name, "cols": cols, "rows": rows, "tags": []}


def gen_over(rng, prof, mid_table, other_tables, gl):
    """pipeline whose spine starts at mid_table; returns (recipe, final St) or None"""
    g = R.Gen(rng, [mid_table] + list(other_tables), prof, gl)
    depth = rng.randint(prof.min_depth, prof.max_depth)
    st = g.pipeline_state(depth, start=g.table_state(mid_table["name"]))
    if st.node["op"] == "table":
        return None
    return st.node, st


def all_tables(recipes):
    out = {}
    for r in recipes:
        out.update(B.tables_of(r))
    return out


def seq_apply(b_ops, mid_name, a_result, frames):
    data = {k: v.copy() for k, v in frames.items()}
    data[mid_name] = a_result
    need = set(b_ops.get_tables().keys())
    return b_ops.eval({k: v for k, v in data.items() if k in need})


def compose_routes(a_ops, b_ops, mid_name):
    """returns {route: composed pipeline or Exception}"""
    import data_algebra.arrow as arrow
    from data_algebra.view_representations import TableDescription

    out = {}
    b_tables = b_ops.get_tables()
    single = set(b_tables.keys()) == {mid_name}

    def attempt(name, f):
        try:
            out[name] = f()
        except Exception as ex:
            out[name] = ex

    if single:
        attempt("a>>b", lambda: a_ops >> b_ops)
    attempt("replace_leaves", lambda: b_ops.replace_leaves({mid_name: a_ops}))

    def via_eval():
        dm = {k: (a_ops if k == mid_name else TableDescription(table_name=t.table_name, column_names=list(t.column_names)))
              for k, t in b_tables.items()}
        return b_ops.eval(dm)

    attempt("eval-with-pipelines", via_eval)
    a_tables = a_ops.get_tables()
    a_key = sorted(a_tables.keys())[0]

    def via_arrow():
        aa = arrow.DataOpArrow(a_ops, free_table_key=a_key)
        ab = arrow.DataOpArrow(b_ops, free_table_key=mid_name)
        r = aa >> ab
        return r

    attempt("arrow", via_arrow)
    return out


def judge_pair(b, a_rec, b_rec, mid_name, frames, case_json, tag):
    """returns dict route -> composed pipeline (only successful ones) or None when a violation was recorded"""
    import data_algebra.arrow as arrow

    a_ops = B.build(a_rec)
    b_ops = B.build(b_rec)
    need_a = set(a_ops.get_tables().keys())
    a_res = a_ops.eval({k: v.copy() for k, v in frames.items() if k in need_a})
    try:
        want = seq_apply(b_ops, mid_name, a_res, frames)
    except Exception as ex:
        b.count("sequential_application_raised", type(ex).__name__)
        return None
    routes = compose_routes(a_ops, b_ops, mid_name)
    good = {}
    for name, comp in routes.items():
        b.count("routes", tag + ":" + name)
        if isinstance(comp, Exception):
            b.violation("composition-raised",
                        f"route {name}: composing raised {exc_str(comp)} although b's table '{mid_name}' has exactly a's "
                        f"columns {list(a_ops.column_names)}\na: {a_ops.to_python(pretty=False).strip()[-500:]}\n"
                        f"b: {b_ops.to_python(pretty=False).strip()[-500:]}", case=dict(case_json, route=name),
                        finding_key=None)
            return None
        pipe = comp.pipeline if isinstance(comp, arrow.DataOpArrow) else comp
        need = set(pipe.get_tables().keys())
        if mid_name in need and mid_name not in need_a:
            b.violation("leaf-not-replaced", f"route {name}: composed pipeline still reads table '{mid_name}'",
                        case=dict(case_json, route=name))
            return None
        try:
            got = pipe.eval({k: v.copy() for k, v in frames.items() if k in need})
        except Exception as ex:
            b.violation("composed-eval-raised",
                        f"route {name}: composed pipeline raised {exc_str(ex)}; sequential application returns "
                        f"{want.shape[0]} rows\ncomposed: {pipe.to_python(pretty=False).strip()[-700:]}",
                        case=dict(case_json, route=name))
            return None
        m = frames_match(want, got)
        if m:
            b.violation("composed-differs-from-sequential",
                        f"route {name}: {m}\na: {a_ops.to_python(pretty=False).strip()[-500:]}\n"
                        f"b: {b_ops.to_python(pretty=False).strip()[-500:]}\ncomposed: {pipe.to_python(pretty=False).strip()[-700:]}",
                        case=dict(case_json, route=name))
            return None
        if isinstance(comp, arrow.DataOpArrow):
            # dom / cod of the composed arrow
            a_key = sorted(a_ops.get_tables().keys())[0]
            want_dom = sorted(a_ops.get_tables()[a_key].column_names)
            want_cod = sorted(b_ops.column_names)
            got_dom = sorted(comp.dom().pipeline.column_names)
            got_cod = sorted(comp.cod().pipeline.column_names)
            b.count("dom_cod_checked")
            if got_dom != want_dom or got_cod != want_cod or sorted(got.columns) != got_cod:
                b.violation("dom-cod-wrong", f"composed arrow dom={got_dom} cod={got_cod}; expected dom={want_dom} "
                            f"cod={want_cod}; result columns {sorted(got.columns)}", case=dict(case_json, route=name))
                return None
        else:
            cod = pipe.cod()
            dom = pipe.dom()
            b.count("dom_cod_checked")
            if sorted(cod.column_names) != sorted(got.columns):
                b.violation("dom-cod-wrong", f"route {name}: cod() columns {list(cod.column_names)} but the result has "
                            f"{list(got.columns)}", case=dict(case_json, route=name))
                return None
            if set(dom.keys()) != need or any(set(dom[k].column_names) != set(frames[k].columns) for k in need):
                b.violation("dom-cod-wrong", f"route {name}: dom() = { {k: list(v.column_names) for k, v in dom.items()} } "
                            f"but the composed pipeline reads { {k: list(frames[k].columns) for k in need} }",
                            case=dict(case_json, route=name))
                return None
        good[name] = pipe
    # all routes must build the same pipeline
    names = sorted(good)
    for x in names[1:]:
        b.count("route_equalities_checked")
        if not (good[names[0]] == good[x]):
            b.count("routes_not_equal_as_pipelines", names[0] + "/" + x)
    return good


def run_batch(seed, batch, tier):
    monitors.install()
    b = Batch(PID, seed, batch, tier)
    gl = {}
    for i in range(N[tier] // NB[tier]):
        monitors.OBS.reset_case()
        try:
            with time_limit(40):
                rng = b.rng
                case_a, st_a = diff.new_case(rng, profile(tier, rng, True), tier, gl)
                if rng.random() < 0.12:
                    # a is a bare description of a differently named table with the boundary's columns
                    t = rng.choice(case_a["tables"])
                    t2 = dict(t)
                    t2["name"] = "other_" + t["name"]
                    case_a["tables"] = list(case_a["tables"]) + [t2]
                    case_a["recipe"] = {"op": "table", "name": t2["name"], "cols": [c for c, _ in t2["cols"]]}
                    st_a = R.St(case_a["recipe"], core.table_frame(t2), {c: k for c, k in t2["cols"]})
                    b.count("bare_table_a")
                elif st_a.node["op"] == "table":
                    continue
                if not all(str(c).isidentifier() for c in st_a.frame.columns):
                    continue
                frames = diff.frames_of(case_a)
                mid = frame_to_table("mid", st_a.frame, st_a.kinds)
                rb = gen_over(rng, profile(tier, rng, False), mid, case_a["tables"], gl)
                if rb is None:
                    b.count("b_empty")
                    continue
                b_rec, st_b = rb
                b.evaluation()
                cj = {"tables": case_a["tables"], "a": case_a["recipe"], "b": b_rec, "mid": mid}
                cj = __import__("json").loads(__import__("json").dumps(cj, default=str))
                good = judge_pair(b, case_a["recipe"], b_rec, "mid", frames, cj, "pair")
                for o in B.op_sequence(b_rec):
                    b.count("operators_in_b", o)
                if good is None:
                    continue
                sig = ">".join(B.op_sequence(case_a["recipe"])) + "|" + ">".join(B.op_sequence(b_rec)) + "|" + ",".join(sorted(good))
                # triples: associativity
                if rng.random() < 0.4 and all(str(c).isidentifier() for c in st_b.frame.columns):
                    mid2 = frame_to_table("mid2", st_b.frame, st_b.kinds)
                    rc = gen_over(rng, profile(tier, rng, False), mid2, [], gl)
                    if rc is not None and set(B.tables_of(b_rec)) == {"mid"}:
                        c_rec, st_c = rc
                        a_ops, b_ops, c_ops = B.build(case_a["recipe"]), B.build(b_rec), B.build(c_rec)
                        b.count("triples")
                        cj3 = dict(cj, c=__import__("json").loads(__import__("json").dumps(c_rec, default=str)), mid2=mid2)
                        try:
                            left = (a_ops >> b_ops) >> c_ops
                            right = a_ops >> (b_ops >> c_ops)
                        except Exception as ex:
                            b.violation("composition-raised", f"triple composition raised {exc_str(ex)}\n"
                                        f"a: {a_ops.to_python(pretty=False).strip()[-400:]}\nb: {b_ops.to_python(pretty=False).strip()[-400:]}"
                                        f"\nc: {c_ops.to_python(pretty=False).strip()[-400:]}", case=cj3)
                            continue
                        need = set(a_ops.get_tables().keys())
                        data = {k: v for k, v in frames.items() if k in need}
                        try:
                            want = c_ops.eval({"mid2": b_ops.eval({"mid": a_ops.eval({k: v.copy() for k, v in data.items()})})})
                        except Exception as ex:
                            b.count("sequential_application_raised", type(ex).__name__)
                            continue
                        try:
                            rl = left.eval({k: v.copy() for k, v in data.items()})
                            rr = right.eval({k: v.copy() for k, v in data.items()})
                        except Exception as ex:
                            b.violation("composed-eval-raised", f"triple: {exc_str(ex)}", case=cj3)
                            continue
                        m = frames_match(want, rl) or frames_match(want, rr)
                        if m:
                            b.violation("associativity-result", f"(a>>b)>>c / a>>(b>>c) vs sequential: {m}\n"
                                        f"left: {left.to_python(pretty=False).strip()[-600:]}\nright: {right.to_python(pretty=False).strip()[-600:]}",
                                        case=cj3)
                            continue
                        b.count("associativity_results_equal")
                        if not (left == right):
                            # not required by the property: the greedy merge of consecutive extends may group the
                            # same assignments differently; the two pipelines are only required to behave alike
                            b.count("associativity_structurally_different_but_same_result")
                        else:
                            b.count("associativity_structurally_equal")
                        sig += "|triple:" + ">".join(B.op_sequence(c_rec))
                b.sig(sig)
                b.sample({"a": diff.describe(case_a)[-300:], "b": B.build(b_rec).to_python(pretty=False).strip()[-300:]}, limit=1)
        except CaseTimeout:
            b.count("case_timeout")
        except Exception as ex:
            b.count("harness_error", type(ex).__name__ + ":" + str(ex)[:100])
    b.counters["generator"] = {k: v for k, v in gl.items() if k.startswith("step:")}
    return b.result()


def replay(v):
    c = v.get("case") or {}
    if "a" not in c or "b" not in c:
        return None
    bb = Batch(PID, 0, 0, "quick")
    frames = {t["name"]: core.table_frame(t) for t in c["tables"]}
    good = judge_pair(bb, c["a"], c["b"], "mid", frames, dict(c), "replay")
    if bb.violations:
        return bb.violations[0]["kind"] + ": " + bb.violations[0]["detail"]
    return None


# ------------------------------------------------------------------ witnesses of repaired / recorded defects
def _pair_witness(a_f, b_f, data, what):
    import pandas
    from data_algebra.view_representations import TableDescription

    a = a_f(TableDescription(table_name="d", column_names=list(data.columns)))
    a_res = a.eval({"d": data.copy()})
    bq = b_f(TableDescription(table_name="mid", column_names=list(a.column_names)))
    want = bq.eval({"mid": a_res})
    try:
        comp = a >> bq
        got = comp.eval({"d": data.copy()})
    except Exception as ex:
        return f"{what}: a >> b raises {exc_str(ex)[:160]}"
    m = frames_match(want, got)
    return None if m is None else f"{what}: {m}"


def w_select_rows():
    import pandas

    d = pandas.DataFrame({"x": [1.0, 2.0, 3.0], "g": ["a", "b", "a"]})
    return _pair_witness(lambda t: t.extend({"y": "x + 1"}), lambda t: t.select_rows("y > 2"), d,
                         "b contains select_rows")


def w_map_deletion():
    import pandas

    d = pandas.DataFrame({"x": [1.0, 2.0, 3.0], "g": ["a", "b", "a"]})
    return _pair_witness(lambda t: t.extend({"y": "x + 1"}), lambda t: t.map_columns({"y": "z", "g": None}), d,
                         "b contains map_columns with a deletion")


def w_partition_one():
    import pandas

    d = pandas.DataFrame({"x": [1.0, 2.0, 3.0], "g": ["a", "b", "a"]})
    return _pair_witness(lambda t: t.extend({"y": "x + 1"}), lambda t: t.extend({"n": "_size()"}, partition_by=1), d,
                         "b contains extend(_size(), partition_by=1)")


WITNESSES = {
    "replace-leaves-select-rows": w_select_rows,
    "replace-leaves-map-columns-deletion": w_map_deletion,
    "replace-leaves-partition-by-one": w_partition_one,
}


def inconclusive(counters, sigs, tier):
    ob = counters.get("operators_in_b", {})
    need = ["extend", "project", "select_rows", "select_columns", "drop_columns", "rename_columns", "map_columns",
            "order_rows", "natural_join", "concat_rows"]
    miss = [o for o in need if ob.get(o, 0) == 0]
    if miss:
        return "operator kinds never composed (as part of b): %s" % miss
    r = counters.get("routes", {})
    for k in ("pair:a>>b", "pair:replace_leaves", "pair:eval-with-pipelines", "pair:arrow"):
        if r.get(k, 0) < 20:
            return f"route {k} exercised only {r.get(k, 0)} times"
    if counters.get("triples", 0) < 10:
        return "fewer than 10 triples"
    return None
