"""C06 — builder simplifications never change what a pipeline means.

Oracle: (A) the chained pipeline t.s1().s2()...sn() evaluated on Pandas versus (B) each step applied to a
fresh description of the *materialised* result of the previous step (the generator's own stepwise
evaluation).  Acceptance: a probe step appended at the end must be accepted by the chained builder iff it
is accepted on the materialised prefix; when both accept, results must agree.
A monitor on data_ops_utils.try_to_merge_ops counts the merges that really happened.
"""
from vf import monitors
from vf import build as B
from vf import diff
from vf.compare import frames_match
from vf.gen import core, recipes as R
from vf.util import Batch, exc_str, time_limit, CaseTimeout

PID = "C06"
LEVEL = "exploration"
RULE = (
    "step sequences (<=8 quick / <=14 thorough) from the shared generator with boosted shapes: consecutive extends "
    "whose targets are drawn from a 3-name pool (overlapping targets, reads of replaced columns), select/drop/select "
    "chains, order_rows without limit before every operator kind; ~35% end in a probe step (select of a removed "
    "column, join with the common-key check, reference to a removed column, extend reading a replaced column); "
    "non-trivial = the chained pipeline has fewer nodes than steps (a simplification happened) or a probe was "
    "judged; distinct = distinct (operator sequence, simplification kinds, probe kind)"
)
ASSUMPTIONS = ["stepwise evaluation on fresh table descriptions is the meaning of the step sequence (Pandas executor)"]

N = {"quick": 2400, "thorough": 100000}
NB = {"quick": 16, "thorough": 64}

_merge_calls = {"calls": 0, "merged": 0}
_armed = [False]


def arm():
    if _armed[0]:
        return
    import data_algebra.data_ops_utils as u

    orig = u.try_to_merge_ops

    def wrapped(ops1, ops2):
        r = orig(ops1, ops2)
        _merge_calls["calls"] += 1
        if r is not None:
            _merge_calls["merged"] += 1
        return r

    u.try_to_merge_ops = wrapped
    _armed[0] = True


def plan(tier):
    return {"batches": NB[tier], "batch_timeout_s": 3000}


def profile(tier, rng):
    return R.Profile(allow=R.HAZARDS, max_depth=8 if tier == "quick" else rng.choice([8, 14]),
                     ops={"extend": 6, "wextend": 2, "owextend": 1, "project": 1, "select_rows": 2, "select_columns": 3,
                          "drop_columns": 3, "rename_columns": 1, "map_columns": 1, "order_rows": 4, "natural_join": 2,
                          "concat_rows": 1, "convert_records": 1}, self_join_p=0.1, pair_keys_p=0.3)


POOL = ["e0", "e1", "e2"]


def extend_chain(g, st, rng, n):
    """n consecutive non-windowed extends with targets from a tiny pool"""
    for _ in range(n):
        k = rng.randint(1, 3)
        targets = rng.sample(POOL, k)
        ops = []
        kinds = dict(st.kinds)
        for tgt in targets:
            e, kk = g.num(st, d=1)
            # may read itself, may not read another target of the same step
            if core.expr_cols(e) & (set(targets) - {tgt}):
                continue
            ops.append([tgt, e])
            kinds[tgt] = kk
        if not ops:
            continue
        step = {"op": "extend", "ops": ops}
        try:
            fr = g.apply(st, step)
        except Exception:
            continue
        if not R.frame_is_finite(fr):
            continue
        node = dict(step)
        node["src"] = st.node
        st = R.St(node, fr, {c: kinds[c] for c in fr.columns})
    return st


def owindow_chain(g, st, rng):
    """two consecutive ordered-window extends over the same partition whose order_by lists name the same columns
    in a different order (or differ only in reversal): must not be merged into one window"""
    r = g.step_owextend(st)
    if r is None:
        return st
    step, kinds1 = r
    try:
        fr = g.apply(st, step)
    except Exception:
        return st
    node = dict(step)
    node["src"] = st.node
    k = dict(st.kinds)
    k.update(kinds1)
    st1 = R.St(node, fr, {c: k[c] for c in fr.columns})
    order = list(step["order_by"])
    if len(order) >= 2 and rng.random() < 0.7:
        order2 = order[1:] + order[:1]
        rev2 = [c for c in step.get("reverse") or [] if c in order2]
    else:
        order2 = list(order)
        rev2 = [c for c in order2 if c not in (step.get("reverse") or [])][:1]
    numcols = [c for c in st.cols(("i", "f")) if c not in order2 and c != "uid" and not st.has_null(c)
               and (step["partition_by"] == 1 or c not in step["partition_by"])]
    ops2 = [[g.newcol(st1, "o"), ["f", "_row_number", []]]]
    if numcols:
        ops2.append([g.newcol(st1, "oo"), ["m", rng.choice(["cumsum", "cummax", "cummin"]), ["col", rng.choice(numcols)], []]])
    step2 = {"op": "extend", "ops": ops2, "partition_by": step["partition_by"], "order_by": order2, "reverse": rev2}
    try:
        fr2 = g.apply(st1, step2)
    except Exception:
        return st1
    node2 = dict(step2)
    node2["src"] = st1.node
    k2 = dict(st1.kinds)
    for c, _ in ops2:
        k2[c] = "f"
    return R.St(node2, fr2, {c: k2[c] for c in fr2.columns})


def count_nodes(ops):
    seen = set()

    def w(n):
        if id(n) in seen:
            return
        seen.add(id(n))
        for s in n.sources:
            w(s)

    w(ops)
    return len(seen)


def probe_steps(st, rng, removed):
    """candidate final steps whose acceptance could depend on simplification"""
    cols = list(st.frame.columns)
    out = []
    if removed:
        c = rng.choice(sorted(removed))
        out.append(("select-removed-column", {"op": "select_columns", "cols": [c] + cols[:1]}))
        out.append(("extend-reads-removed-column", {"op": "extend", "ops": [["zz1", ["col", c]]]}))
        out.append(("order-by-removed-column", {"op": "order_rows", "cols": [c], "reverse": [], "limit": None}))
        out.append(("drop-removed-column", {"op": "drop_columns", "cols": [c]}))
    out.append(("select-existing", {"op": "select_columns", "cols": cols[: max(1, len(cols) // 2)]}))
    if len(cols) >= 2:
        # join against a copy of the current table description sharing *all* columns, check requested
        out.append(("join-check-common-keys", "JOINCHECK"))
    return out


def accept_stepwise(g, st, step, right=None):
    try:
        fr = g.apply(st, step, right)
        return True, fr, None
    except Exception as ex:
        return False, None, ex


def removed_columns(recipe):
    """columns that existed somewhere along the spine but are not produced at the end"""
    seen = set()
    for n in B.spine(recipe):
        if n["op"] == "table":
            seen |= set(n["cols"])
        elif n["op"] in ("extend", "project"):
            seen |= {c for c, _ in n["ops"]}
    return seen


def run_batch(seed, batch, tier):
    monitors.install()
    arm()
    b = Batch(PID, seed, batch, tier)
    gl = {}
    for i in range(N[tier] // NB[tier]):
        monitors.OBS.reset_case()
        try:
            with time_limit(30):
                prof = profile(tier, b.rng)
                case, st = diff.new_case(b.rng, prof, tier, gl)
                g = R.Gen(b.rng, case["tables"], prof, gl)
                shape = "random"
                if b.rng.random() < 0.4:
                    st = extend_chain(g, st, b.rng, b.rng.randint(2, 4))
                    case["recipe"] = st.node
                    case["final_order"] = None
                    shape = "extend-chain"
                elif b.rng.random() < 0.2:
                    st0 = st
                    st = owindow_chain(g, st, b.rng)
                    if st is not st0:
                        case["recipe"] = st.node
                        case["final_order"] = None
                        shape = "ordered-window-chain"
                        b.count("shapes", shape)
                b.evaluation()
                nsteps = B.depth(case["recipe"])
                before = dict(_merge_calls)
                # (A) chained
                try:
                    ops = B.build(case["recipe"])
                except Exception as ex:
                    b.violation("chained-build-rejects-accepted-sequence",
                                f"every step was accepted on the materialised prefix, the chained builder raised "
                                f"{exc_str(ex)}\nsteps: {[n['op'] for n in B.spine(case['recipe'])]}",
                                case=diff.case_json(case))
                    continue
                merged_here = _merge_calls["merged"] - before["merged"]
                frames = diff.used_frames(case)
                try:
                    got = ops.eval({k: v.copy() for k, v in frames.items()})
                except Exception as ex:
                    b.violation("chained-eval-raises", f"chained pipeline raised {exc_str(ex)} although every step "
                                f"evaluated on the materialised prefix\npipeline: {diff.describe(case)}",
                                case=diff.case_json(case))
                    continue
                fo = case.get("final_order")
                m = frames_match(st.frame, got, ordered_by=fo[0] if fo else None)
                if m:
                    def fails(c):
                        return replay_case(c) is not None
                    b.violation("chained-differs-from-stepwise",
                                f"{m}\npipeline: {diff.describe(case)}", case=diff.case_json(case))
                    continue
                nnodes = count_nodes(ops) - len(B.tables_of(case["recipe"]))
                simpl = []
                if merged_here:
                    simpl.append("extend-merge")
                seq = [n["op"] for n in B.spine(case["recipe"])]
                if "order_rows" in seq[:-1]:
                    simpl.append("interior-order")
                if any(a in ("select_columns", "drop_columns") and c == "select_columns" for a, c in zip(seq, seq[1:])):
                    simpl.append("select-collapse")
                for s_ in simpl:
                    b.count("simplifications", s_)
                # probe step
                probe_kind = "-"
                if b.rng.random() < 0.35:
                    removed = removed_columns(case["recipe"]) - set(st.frame.columns)
                    pk, step = b.rng.choice(probe_steps(st, b.rng, removed))
                    probe_kind = pk
                    right = None
                    if step == "JOINCHECK":
                        right = R.St({"op": "table", "name": "pr", "cols": list(st.frame.columns)}, st.frame.copy(), st.kinds)
                        step = {"op": "natural_join", "on": [list(st.frame.columns)[0]], "jointype": "left"}
                        # the check can be requested under its current name or the deprecated one; keys as on= or by=
                        step[b.rng.choice(["check", "check_by"])] = True
                        if b.rng.random() < 0.4:
                            step["legacy_by"] = True
                    ok_b, fr_b, ex_b = accept_stepwise(g, st, step, right)
                    node = dict(step)
                    node["src"] = case["recipe"]
                    if right is not None:
                        node["right"] = right.node
                    try:
                        ops2 = B.build(node)
                        ok_a, ex_a = True, None
                    except Exception as ex:
                        ok_a, ex_a = False, ex
                    b.count("probes", pk, "stepwise=%s,chained=%s" % (ok_b, ok_a))
                    pc = dict(case)
                    pc["recipe"] = node
                    if ok_a != ok_b:
                        b.violation("acceptance-differs",
                                    f"probe {pk}: chained builder {'accepts' if ok_a else 'rejects (' + exc_str(ex_a) + ')'}, "
                                    f"the same step on the materialised prefix is {'accepted' if ok_b else 'rejected (' + exc_str(ex_b) + ')'}"
                                    f"\nchained: {B.build(case['recipe']).to_python(pretty=False).strip()[-700:]}\nstep: {step}",
                                    case=diff.case_json(pc, {"probe": pk}))
                        continue
                    if ok_a and ok_b:
                        data = dict(frames)
                        if right is not None:
                            data["pr"] = right.frame
                        try:
                            got2 = ops2.eval({k: v.copy() for k, v in data.items()})
                            m2 = frames_match(fr_b, got2)
                        except Exception as ex:
                            m2 = "chained eval raised " + exc_str(ex)
                        if m2:
                            b.violation("chained-differs-from-stepwise", f"after probe {pk}: {m2}\npipeline: {diff.describe(pc)}",
                                        case=diff.case_json(pc, {"probe": pk}))
                            continue
                if nnodes < nsteps or probe_kind != "-":
                    b.sig(">".join(seq) + "|" + ",".join(simpl) + "|" + probe_kind + "|" + shape)
                b.sample({"pipeline": diff.describe(case), "steps": nsteps, "nodes": nnodes}, limit=1)
        except CaseTimeout:
            b.count("case_timeout")
        except Exception as ex:
            b.count("harness_error", type(ex).__name__)
    b.counters["try_to_merge_ops"] = dict(_merge_calls)
    b.counters["generator"] = {k: v for k, v in gl.items() if k.startswith("step:")}
    return b.result()


def replay_case(c):
    """re-derive the stepwise result by materialising each spine step, compare with the chained evaluation"""
    import pandas

    frames = diff.used_frames(c)

    def stepwise(node):
        if node["op"] == "table":
            return frames[node["name"]].copy()
        src = stepwise(node["src"])
        n = dict(node)
        n["src"] = {"op": "table", "name": "cur__", "cols": list(src.columns)}
        data = {"cur__": src}
        if "right" in node:
            r = stepwise(node["right"])
            n["right"] = {"op": "table", "name": "cur__r", "cols": list(r.columns)}
            data["cur__r"] = r
        return B.build(n).eval(data)

    try:
        want = stepwise(c["recipe"])
    except Exception:
        return None
    try:
        got = B.build(c["recipe"]).eval({k: v.copy() for k, v in frames.items()})
    except Exception as ex:
        return "chained raised " + exc_str(ex)
    return frames_match(want, got)


def replay(v):
    c = v.get("case") or {}
    if "recipe" not in c:
        return None
    return replay_case(c)


def w_merge_reads_replaced():
    import pandas
    from data_algebra.view_representations import TableDescription

    d = pandas.DataFrame({"a": [1.0, 2.0]})
    t = TableDescription(table_name="d", column_names=["a"])
    chained = t.extend({"x": "a + 1", "y": "a + 2"}).extend({"x": "a + 3", "z": "y * 2"})
    r1 = t.extend({"x": "a + 1", "y": "a + 2"}).eval({"d": d})
    t2 = TableDescription(table_name="d2", column_names=list(r1.columns))
    want = t2.extend({"x": "a + 3", "z": "y * 2"}).eval({"d2": r1})
    try:
        got = chained.eval({"d": d})
    except Exception as ex:
        return "extend({x,y}).extend({x, z:=f(y)}) chained raises " + exc_str(ex)
    m = frames_match(want, got)
    return None if m is None else "extend({'x':'a+1','y':'a+2'}).extend({'x':'a+3','z':'y*2'}): " + m


def w_select_after_drop():
    from data_algebra.view_representations import TableDescription

    t = TableDescription(table_name="d", column_names=["x", "y"])
    try:
        t.drop_columns(["y"]).select_columns(["y"])
    except Exception:
        return None
    return "drop_columns(['y']).select_columns(['y']) is accepted by the chained builder"


def w_join_check_after_order():
    from data_algebra.view_representations import TableDescription

    t = TableDescription(table_name="d", column_names=["k", "v"])
    u = TableDescription(table_name="e", column_names=["k", "v"])
    try:
        t.order_rows(["k"]).natural_join(u, on=["k"], jointype="left", check_all_common_keys_in_equi_spec=True)
    except Exception:
        return None
    return ("order_rows(['k']).natural_join(..., check_all_common_keys_in_equi_spec=True) with a non-key common column is "
            "accepted (the check is dropped with the eliminated order_rows)")


def w_merge_into_explicit_window():
    from data_algebra.view_representations import TableDescription

    t = TableDescription(table_name="d", column_names=["x", "u"])
    try:
        t.extend({"v": "(u + u) * x"}).extend({"w": "_size()"}, partition_by=1)
    except Exception as ex:
        return ("extend({'v':'(u + u) * x'}).extend({'w':'_size()'}, partition_by=1) is rejected by the chained builder "
                "(%s) although each step is valid on its own" % exc_str(ex)[:120])
    return None


WITNESSES = {
    "extend-merged-into-explicit-window-extend": w_merge_into_explicit_window,
    "extend-merge-ignores-non-shared-assignments": w_merge_reads_replaced,
    "select-through-drop-accepts-removed-column": w_select_after_drop,
    "join-key-check-lost-after-interior-order": w_join_check_after_order,
}


def inconclusive(counters, sigs, tier):
    s = counters.get("simplifications", {})
    for k in ("extend-merge", "interior-order", "select-collapse"):
        if s.get(k, 0) < 5:
            return f"simplification {k} observed only {s.get(k, 0)} times"
    if counters.get("try_to_merge_ops", {}).get("merged", 0) == 0:
        return "try_to_merge_ops never merged"
    return None
