"""C11 — pipelines that compare equal behave identically; == is reflexive and symmetric.

For a generated pipeline p the harness builds q = p with exactly one argument of one step changed (or an
independently rebuilt identical copy).  Whenever p == q is True the two must produce the same SQL text in the five
dialects (SQLite, PostgreSQL, BigQuery, SparkSQL, MySQL) and the same Pandas result on the inputs.  p == p must be
True, an independently rebuilt identical copy must be equal, (p == q) must equal (q == p), and != must be its negation.
"""
import copy
import json

from vf import monitors
from vf import build as B
from vf import diff
from vf.compare import frames_match
from vf.gen import core, recipes as R
from vf.util import Batch, exc_str, time_limit, CaseTimeout

PID = "C11"
LEVEL = "exploration"
RULE = (
    "pairs (p, q): p from the shared generator (all operators, depth 1-7 quick / 1-12 thorough), q = p with one "
    "argument of one step changed by one of ~35 mutation operators (literal value incl. 1 -> 1.0 -> True, operator, "
    "method, column, target name, assignment order/removal, n-ary chain extended by a term, partition/order/reverse, "
    "group_by, selection order/content, order columns/reversal/limit, rename/map pairs and deletions, join type, key "
    "list, key pairing, concat labels/id column, table name/columns/column order/qualifiers) or an independently "
    "rebuilt copy; non-trivial = a real mutation was applied and q builds; distinct = distinct (mutation operator, "
    "node kind, verdict of ==)"
)
ASSUMPTIONS = ["Pandas executor for results; to_sql text compared verbatim per dialect"]

N = {"quick": 1200, "thorough": 16000}
NB = {"quick": 16, "thorough": 64}
MUT_PER_CASE = 6

FIND_VALUE = "value-equality-ignores-type"
FIND_TABLE = "table-equality-by-name-only"


def plan(tier):
    return {"batches": NB[tier], "batch_timeout_s": 3000}


def profile(tier, rng):
    return R.Profile(allow=R.HAZARDS - {"limit0"}, max_depth=7 if tier == "quick" else rng.choice([7, 12]), min_depth=1,
                     self_join_p=0.15, pair_keys_p=0.25,
                     ops={"extend": 5, "wextend": 2, "owextend": 2, "project": 2, "select_rows": 3, "select_columns": 2,
                          "drop_columns": 2, "rename_columns": 2, "map_columns": 2, "order_rows": 2, "natural_join": 3,
                          "concat_rows": 2, "convert_records": 1})


_models = []


def models():
    if not _models:
        import data_algebra.SQLite, data_algebra.PostgreSQL, data_algebra.BigQuery, data_algebra.SparkSQL, data_algebra.MySQL

        _models.extend([
            ("SQLite", data_algebra.SQLite.SQLiteModel()),
            ("PostgreSQL", data_algebra.PostgreSQL.PostgreSQLModel()),
            ("BigQuery", data_algebra.BigQuery.BigQueryModel()),
            ("SparkSQL", data_algebra.SparkSQL.SparkSQLModel()),
            ("MySQL", data_algebra.MySQL.MySQLModel()),
        ])
    return _models


# ------------------------------------------------------------------ expression mutation
def subexprs(e, path=()):
    """yield (path, node) of every sub-expression"""
    yield path, e
    t = e[0]
    if t == "bin":
        yield from subexprs(e[2], path + (2,))
        yield from subexprs(e[3], path + (3,))
    elif t in ("neg", "not"):
        yield from subexprs(e[1], path + (1,))
    elif t == "m":
        yield from subexprs(e[2], path + (2,))
        for i, a in enumerate(e[3]):
            if a[0] not in ("list", "set", "dict", "raw"):
                yield from subexprs(a, path + (3, i))


def set_at(e, path, new):
    if not path:
        return new
    e = list(e)
    if len(path) >= 2 and path[0] == 3 and e[0] == "m":
        args = list(e[3])
        args[path[1]] = set_at(args[path[1]], path[2:], new)
        e[3] = args
        return e
    e[path[0]] = set_at(e[path[0]], path[1:], new)
    return e


OP_SWAP = {"+": "-", "-": "+", "*": "/", "/": "*", "<": "<=", "<=": "<", ">": ">=", ">=": ">", "==": "!=", "!=": "==",
           "and": "or", "or": "and", "%+%": "%+%", "%/%": "/", "%?%": "%?%"}
METH_SWAP = {"sum": "max", "max": "min", "min": "max", "mean": "sum", "count": "size", "size": "count", "cumsum": "cummax",
             "cummax": "cummin", "cummin": "cummax", "maximum": "fmax", "fmax": "maximum", "minimum": "fmin",
             "fmin": "minimum", "abs": "sign", "sign": "abs", "floor": "ceil", "ceil": "floor", "sin": "cos", "cos": "sin",
             "if_else": "where", "where": "if_else", "is_null": "is_bad", "is_bad": "is_null", "sqrt": "exp", "log": "exp",
             "exp": "tanh", "tanh": "sin", "shift": "cumsum"}


def mutate_expr(rng, e, cols_by_kind, kinds):
    """returns (label, new expr) or None"""
    subs = list(subexprs(e))
    rng.shuffle(subs)
    for path, n in subs:
        t = n[0]
        choice = rng.random()
        if t == "lit":
            v = n[1]
            if isinstance(v, bool):
                return "lit-bool-flip", set_at(e, path, ["lit", not v])
            if isinstance(v, int):
                r = rng.random()
                if r < 0.35:
                    return "lit-int-to-float", set_at(e, path, ["lit", float(v)])
                if r < 0.5 and v in (0, 1):
                    return "lit-int-to-bool", set_at(e, path, ["lit", bool(v)])
                return "lit-int-change", set_at(e, path, ["lit", v + 1])
            if isinstance(v, float):
                if v == int(v) and rng.random() < 0.4:
                    return "lit-float-to-int", set_at(e, path, ["lit", int(v)])
                return "lit-float-change", set_at(e, path, ["lit", v + 0.5])
            if isinstance(v, str):
                r = rng.random()
                if r < 0.3:
                    return "lit-str-case", set_at(e, path, ["lit", v.upper() if v.upper() != v else v + "x"])
                if r < 0.5:
                    return "lit-str-space", set_at(e, path, ["lit", v + " "])
                return "lit-str-change", set_at(e, path, ["lit", v + "z"])
        if t == "bin" and n[1] in OP_SWAP and OP_SWAP[n[1]] != n[1] and choice < 0.6:
            return "operator-change", set_at(e, path, ["bin", OP_SWAP[n[1]], n[2], n[3]])
        if t == "bin" and n[1] in ("-", "/", "<", ">", "%/%") and choice < 0.8:
            return "operand-swap", set_at(e, path, ["bin", n[1], n[3], n[2]])
        if t == "m" and n[1] in METH_SWAP and choice < 0.7:
            return "method-change", set_at(e, path, ["m", METH_SWAP[n[1]], n[2], n[3]])
        if t == "m" and n[1] == "is_in" and n[3] and n[3][0][0] in ("list", "set"):
            vals = list(n[3][0][1])
            r = rng.random()
            if r < 0.3:
                nv = (vals[-1] + 7) if isinstance(vals[-1], (int, float)) else (str(vals[-1]) + "q")
                return "is_in-change-value", set_at(e, path, ["m", "is_in", n[2], [[n[3][0][0], vals[:-1] + [nv]]]])
            if r < 0.5 and len(vals) > 1:
                return "is_in-drop-value", set_at(e, path, ["m", "is_in", n[2], [[n[3][0][0], vals[:-1]]]])
            if r < 0.7 and len(vals) > 1:
                return "is_in-reorder", set_at(e, path, ["m", "is_in", n[2], [[n[3][0][0], vals[1:] + vals[:1]]]])
            nv = (vals[0] + 7) if isinstance(vals[0], (int, float)) else (str(vals[0]) + "q")
            return "is_in-add-value", set_at(e, path, ["m", "is_in", n[2], [[n[3][0][0], vals + [nv]]]])
        if t == "col":
            k = kinds.get(n[1])
            cand = [c for c in cols_by_kind.get(k, []) if c != n[1]]
            if cand:
                return "column-change", set_at(e, path, ["col", rng.choice(cand)])
        if t == "neg" and choice < 0.5:
            return "drop-negation", set_at(e, path, n[1])
        if t == "not" and choice < 0.5:
            return "drop-not", set_at(e, path, n[1])
    return None


# ------------------------------------------------------------------ node mutation
def node_columns(node, frames_cols):
    """declared columns of the *source* of node (by building it)"""
    try:
        return list(B.build(node["src"]).column_names)
    except Exception:
        return []


def mutate_node(rng, n, kinds_hint):
    """mutates node dict n in place; returns label or None"""
    op = n["op"]
    src_cols = node_columns(n, None) if op != "table" else list(n["cols"])
    cols_by_kind = {}
    for c in src_cols:
        cols_by_kind.setdefault(kinds_hint.get(c, "?"), []).append(c)
    r = rng.random()
    if op in ("extend", "project"):
        ops = [list(x) for x in n["ops"]]
        choice = rng.choice(["expr", "expr", "expr", "target", "order", "drop", "window", "nary"])
        if choice == "expr" and ops:
            i = rng.randrange(len(ops))
            m = mutate_expr(rng, ops[i][1], cols_by_kind, kinds_hint)
            if m:
                ops[i][1] = m[1]
                n["ops"] = ops
                return m[0]
        if choice == "target" and ops:
            i = rng.randrange(len(ops))
            ops[i][0] = ops[i][0] + "_r"
            n["ops"] = ops
            return "target-rename"
        if choice == "order" and len(ops) > 1:
            n["ops"] = ops[1:] + ops[:1]
            return "assignment-order"
        if choice == "drop" and len(ops) > 1:
            n["ops"] = ops[:-1]
            return "assignment-removed"
        if choice == "nary" and ops:
            i = rng.randrange(len(ops))
            numc = cols_by_kind.get("i", []) + cols_by_kind.get("f", [])
            if len(numc) >= 2 and op == "extend" and not n.get("partition_by") and not n.get("order_by"):
                a, b_, c = rng.choice(numc), rng.choice(numc), rng.choice(numc)
                o = rng.choice(["+", "*"])
                tgt = ops[i][0]
                n["_nary"] = {"target": tgt, "short": f"{a} {o} {b_}", "long": f"{a} {o} {b_} {o} {c}"}
                return "nary-chain-extended"
        if choice == "window" or True:
            if op == "project":
                gb = list(n.get("group_by") or [])
                cand = [c for c in src_cols if c not in gb and c not in [t for t, _ in ops] and kinds_hint.get(c) in ("s", "i", "b")]
                if gb and rng.random() < 0.5:
                    n["group_by"] = gb[:-1]
                    return "group_by-removed-key"
                if len(gb) > 1 and rng.random() < 0.5:
                    n["group_by"] = gb[1:] + gb[:1]
                    return "group_by-reordered"
                if cand:
                    n["group_by"] = gb + [rng.choice(cand)]
                    return "group_by-added-key"
                return None
            pb = n.get("partition_by")
            ob = list(n.get("order_by") or [])
            rv = list(n.get("reverse") or [])
            if ob:
                k = rng.random()
                if k < 0.35:
                    c = rng.choice(ob)
                    n["reverse"] = [x for x in rv if x != c] if c in rv else rv + [c]
                    return "reverse-toggled"
                if k < 0.7 and len(ob) > 1:
                    n["order_by"] = ob[1:] + ob[:1]
                    return "order_by-reordered"
                if len(ob) > 1:
                    drop = ob[-1]
                    n["order_by"] = ob[:-1]
                    n["reverse"] = [x for x in rv if x != drop]
                    return "order_by-removed-key"
            if isinstance(pb, list) and pb:
                if len(pb) > 1 and rng.random() < 0.5:
                    n["partition_by"] = pb[1:] + pb[:1]
                    return "partition_by-reordered"
                n["partition_by"] = pb[:-1] if len(pb) > 1 else 1
                return "partition_by-removed-key"
            if pb == 1:
                cand = [c for c in src_cols if kinds_hint.get(c) in ("s", "i", "b") and c not in [t for t, _ in ops] and c not in ob]
                if cand:
                    n["partition_by"] = [rng.choice(cand)]
                    return "partition_by-added-key"
        return None
    if op == "select_rows":
        m = mutate_expr(rng, n["expr"], cols_by_kind, kinds_hint)
        if m:
            n["expr"] = m[1]
            return "select_rows-" + m[0]
        return None
    if op == "select_columns":
        cols = list(n["cols"])
        if len(cols) > 1 and r < 0.5:
            n["cols"] = cols[1:] + cols[:1]
            return "selection-order"
        if len(cols) > 1 and r < 0.75:
            n["cols"] = cols[:-1]
            return "selection-removed-column"
        cand = [c for c in src_cols if c not in cols]
        if cand:
            n["cols"] = cols + [rng.choice(cand)]
            return "selection-added-column"
        return None
    if op == "drop_columns":
        cols = list(n["cols"])
        cand = [c for c in src_cols if c not in cols]
        if len(cols) > 1 and r < 0.4:
            n["cols"] = cols[1:] + cols[:1]
            return "drop-order"
        if len(cols) > 1 and r < 0.7:
            n["cols"] = cols[:-1]
            return "drop-fewer"
        if len(cand) > 1:
            n["cols"] = cols + [rng.choice(cand)]
            return "drop-more"
        return None
    if op == "order_rows":
        cols = list(n["cols"])
        rv = list(n.get("reverse") or [])
        if r < 0.3:
            c = rng.choice(cols)
            n["reverse"] = [x for x in rv if x != c] if c in rv else rv + [c]
            return "order-reverse-toggled"
        if r < 0.55 and len(cols) > 1:
            n["cols"] = cols[1:] + cols[:1]
            return "order-columns-reordered"
        if r < 0.8:
            lim = n.get("limit")
            n["limit"] = 3 if lim is None else (None if rng.random() < 0.4 else lim + 1)
            return "order-limit-changed"
        if len(cols) > 1:
            drop = cols[-1]
            n["cols"] = cols[:-1]
            n["reverse"] = [x for x in rv if x != drop]
            return "order-columns-removed"
        return None
    if op == "rename_columns":
        mp = [list(x) for x in n["map"]]
        if len(mp) > 1 and r < 0.4:
            n["map"] = [[mp[0][0], mp[1][1]], [mp[1][0], mp[0][1]]] + mp[2:]
            return "rename-pairs-swapped"
        if len(mp) > 1 and r < 0.6:
            n["map"] = mp[1:] + mp[:1]
            return "rename-order"
        mp[0][0] = mp[0][0] + "_r"
        n["map"] = mp
        return "rename-new-name"
    if op == "map_columns":
        mp = [list(x) for x in n["map"]]
        i = rng.randrange(len(mp))
        if mp[i][1] is None:
            mp[i][1] = mp[i][0] + "_m"
            n["map"] = mp
            return "map-deletion-to-rename"
        if r < 0.5 and len(src_cols) - sum(1 for x in mp if x[1] is None) > 1:
            mp[i][1] = None
            n["map"] = mp
            return "map-rename-to-deletion"
        mp[i][1] = mp[i][1] + "_r"
        n["map"] = mp
        return "map-new-name"
    if op == "natural_join":
        jt = n["jointype"]
        on = list(n["on"])
        if r < 0.4:
            n["jointype"] = rng.choice([j for j in ("inner", "left", "right", "full") if j != jt.lower()]) if jt.lower() != "cross" else "cross"
            if jt.lower() == "cross":
                return None
            return "jointype-changed"
        try:
            rcols = list(B.build(n["right"]).column_names)
        except Exception:
            return None
        plain = [k for k in on if not isinstance(k, (list, tuple))]
        if r < 0.6 and len(on) > 1:
            n["on"] = on[:-1]
            return "join-key-removed"
        if r < 0.75 and len(on) > 1:
            n["on"] = on[1:] + on[:1]
            return "join-key-order"
        if plain and len(plain) == len(on):
            # key pairing: keep the left name, pair it with another right column
            k = plain[0]
            others = [c for c in rcols if c != k and c in src_cols]
            others2 = [c for c in rcols if c != k]
            if others2:
                o = rng.choice(others or others2)
                n["on"] = [[k, o]] + [[x, x] for x in plain[1:]]
                n["_pair_base"] = [[x, x] for x in plain]
                return "join-key-pairing"
        return None
    if op == "concat_rows":
        k = rng.choice(["a_name", "b_name", "id_column"])
        if k == "id_column":
            idc = n.get("id_column")
            if idc is None:
                n["id_column"] = "src_new"
                return "concat-id-added"
            n["id_column"] = None if r < 0.4 else idc + "_r"
            return "concat-id-changed"
        n[k] = str(n.get(k)) + "_x"
        return "concat-label-changed"
    if op == "convert_records":
        rm = copy.deepcopy(n["record_map"])
        sp = rm.get("blocks_out") or rm.get("blocks_in")
        nk = len(sp["control_table_keys"])
        rows = sp["control_table"]["rows"]
        if r < 0.35:
            rows[0][0] = str(rows[0][0]) + "_x"      # a cell of the control table's key column
            n["record_map"] = rm
            return "record-map-key-cell"
        if r < 0.6 and len(rows) > 1:
            rows[0][nk], rows[1][nk] = rows[1][nk], rows[0][nk]   # which content name sits in which block row
            n["record_map"] = rm
            return "record-map-content-swapped"
        if r < 0.8:
            sp["control_table"]["cols"][-1] = sp["control_table"]["cols"][-1] + "_r"   # a value column name
            n["record_map"] = rm
            return "record-map-value-column-name"
        sp["control_table"]["cols"][0] = sp["control_table"]["cols"][0] + "_r"
        sp["control_table_keys"] = [sp["control_table"]["cols"][0]] + list(sp["control_table_keys"][1:])
        n["record_map"] = rm
        return "record-map-key-column-name"
    if op == "table":
        if r < 0.3:
            n["_rename_table"] = n["name"] + "_other"
            return "table-name"
        if r < 0.55 and len(n["cols"]) > 1:
            n["cols"] = n["cols"][1:] + n["cols"][:1]
            return "table-column-order"
        if r < 0.8:
            n["cols"] = list(n["cols"]) + ["extra_col"]
            return "table-extra-column"
        n["_qualifiers"] = {"schema": "s1"}
        return "table-qualifiers"
    return None


def build2(recipe, nary_which=None):
    """B.build plus the C11-only decorations (_rename_table, _qualifiers, _nary, paired join keys)"""
    import data_algebra
    from data_algebra.view_representations import TableDescription

    memo = {}
    for n in B.walk(recipe):
        if n["op"] == "table" and (n.get("_rename_table") or n.get("_qualifiers")):
            memo[id(n)] = TableDescription(table_name=n.get("_rename_table") or n["name"], column_names=list(n["cols"]),
                                           qualifiers=n.get("_qualifiers"))
    if nary_which is None:
        return B.build(recipe, memo=memo)
    # replace the decorated extend's target expression by raw text
    rc = copy.deepcopy(recipe)
    for n in B.walk(rc):
        if n.get("_nary"):
            d = n["_nary"]
            n["ops"] = [[t, (["rawexpr", d[nary_which]] if t == d["target"] else e)] for t, e in n["ops"]]
    memo = {}
    for n in B.walk(rc):
        if n["op"] == "table" and (n.get("_rename_table") or n.get("_qualifiers")):
            memo[id(n)] = TableDescription(table_name=n.get("_rename_table") or n["name"], column_names=list(n["cols"]),
                                           qualifiers=n.get("_qualifiers"))
    return B.build(rc, memo=memo)


def sql_texts(p):
    out = {}
    for name, m in models():
        try:
            out[name] = m.to_sql(p)
        except Exception as ex:
            out[name] = "RAISED " + type(ex).__name__
    return out


def frames_for(p, base_frames):
    """frames for every table p reads: renamed / widened tables get the base table's data (+ a constant column)"""
    out = {}
    for k, t in p.get_tables().items():
        name = t.table_name
        src = name[:-len("_other")] if name.endswith("_other") and name[:-len("_other")] in base_frames else name
        f = base_frames[src].copy()
        for c in t.column_names:
            if c not in f.columns:
                f[c] = 1
        out[k] = f[list(t.column_names)] if set(t.column_names) <= set(f.columns) else f
    return out


def classify(label, p, q):
    if label.startswith(("lit-int-to-float", "lit-int-to-bool", "lit-float-to-int", "select_rows-lit-int-to-float",
                         "select_rows-lit-int-to-bool", "select_rows-lit-float-to-int")):
        return FIND_VALUE
    if label in ("table-column-order", "table-extra-column", "table-qualifiers"):
        return FIND_TABLE
    return None


def judge_pair(b, p, q, label, frames, cj):
    """reflexivity / symmetry / equal => same behaviour.  returns True if a violation was recorded"""
    try:
        e_pq = (p == q)
        e_qp = (q == p)
        n_pq = (p != q)
    except Exception as ex:
        b.violation("equality-raised", f"{label}: {exc_str(ex)}", case=cj)
        return True
    b.count("verdicts", label, "equal" if e_pq else "different")
    if e_pq != e_qp:
        b.violation("equality-not-symmetric", f"{label}: p == q is {e_pq} but q == p is {e_qp}\np: {p.to_python(pretty=False).strip()[-500:]}\n"
                    f"q: {q.to_python(pretty=False).strip()[-500:]}", case=cj)
        return True
    if n_pq == e_pq:
        b.violation("ne-not-negation", f"{label}: p == q is {e_pq} and p != q is {n_pq}", case=cj)
        return True
    if not e_pq:
        return False
    fk = classify(label, p, q)
    # equal => same SQL in every dialect
    sp, sq_ = sql_texts(p), sql_texts(q)
    b.count("equal_pairs_sql_compared")
    for d in sp:
        if sp[d] != sq_[d]:
            b.violation("equal-pipelines-different-sql",
                        f"{label}: p == q but the {d} SQL differs\np: {p.to_python(pretty=False).strip()[-500:]}\n"
                        f"q: {q.to_python(pretty=False).strip()[-500:]}\nsql p: {sp[d][-400:]}\nsql q: {sq_[d][-400:]}",
                        case=dict(cj, dialect=d), finding_key=fk)
            return True
    # equal => same results
    try:
        fp = frames_for(p, frames)
        rp = p.eval({k: v.copy() for k, v in fp.items()})
    except Exception as ex:
        rp = ex
    try:
        fq = frames_for(q, frames)
        rq = q.eval({k: v.copy() for k, v in fq.items()})
    except Exception as ex:
        rq = ex
    b.count("equal_pairs_results_compared")
    if isinstance(rp, Exception) or isinstance(rq, Exception):
        if isinstance(rp, Exception) != isinstance(rq, Exception):
            b.violation("equal-pipelines-different-results",
                        f"{label}: p == q but one evaluation raises: p -> {exc_str(rp) if isinstance(rp, Exception) else 'table'}, "
                        f"q -> {exc_str(rq) if isinstance(rq, Exception) else 'table'}", case=cj, finding_key=fk)
            return True
        return False
    m = frames_match(rp, rq)
    if m:
        b.violation("equal-pipelines-different-results",
                    f"{label}: p == q but results differ: {m}\np: {p.to_python(pretty=False).strip()[-500:]}\n"
                    f"q: {q.to_python(pretty=False).strip()[-500:]}", case=cj, finding_key=fk)
        return True
    return False


def block_to_block_pairs(b, n):
    """convert_records steps whose record map has BOTH an incoming and an outgoing block layout: p and q differ in one
    of the two layouts only (the shared generator draws one-sided maps)"""
    from data_algebra.view_representations import TableDescription
    from vf.gen import records as RG

    rng = b.rng
    for _ in range(n):
        spec1 = RG.gen_spec(rng)
        names = RG.content_names(spec1)
        spec2 = RG.gen_spec(rng, tag="b", content=names, n_record_keys=len(spec1["record_keys"]))
        if spec2 is None:
            continue
        which = rng.choice(["out", "in"])
        s1m, s2m = copy.deepcopy(spec1), copy.deepcopy(spec2)
        tgt = s2m if which == "out" else s1m
        nk = len(tgt["control_table_keys"])
        rows_ct = tgt["control_table"]["rows"]
        how = rng.choice(["content-swapped", "key-cell"])
        if how == "content-swapped" and len(rows_ct) > 1 and rows_ct[0][nk] != rows_ct[1][nk]:
            rows_ct[0][nk], rows_ct[1][nk] = rows_ct[1][nk], rows_ct[0][nk]
        else:
            how = "key-cell"
            rows_ct[0][0] = str(rows_ct[0][0]) + "_x"
        label = f"record-map-block-to-block:{which}-layout-{how}"
        rows = RG.gen_rowrecs(rng, spec1)
        X = RG.to_frame(RG.ref_unpivot(rows, spec1), RG.block_columns(spec1))
        try:
            t = TableDescription(table_name="X", column_names=RG.block_columns(spec1))
            p = t.convert_records(B.build_record_map({"blocks_in": spec1, "blocks_out": spec2, "strict": True}))
            q = t.convert_records(B.build_record_map({"blocks_in": s1m, "blocks_out": s2m, "strict": True}))
        except Exception as ex:
            b.count("block_to_block_not_built", type(ex).__name__)
            continue
        b.evaluation()
        b.count("mutations", label)
        cj = {"spec_in": spec1, "spec_out": spec2, "mutated_in": s1m, "mutated_out": s2m, "mutation": label}
        if not judge_pair(b, p, q, label, {"X": X}, cj):
            b.sig(f"{label}|convert_records|{'eq' if p == q else 'ne'}")


def run_batch(seed, batch, tier):
    monitors.install()
    b = Batch(PID, seed, batch, tier)
    gl = {}
    for i in range(N[tier] // NB[tier]):
        monitors.OBS.reset_case()
        try:
            with time_limit(90):
                rng = b.rng
                case, st = diff.new_case(rng, profile(tier, rng), tier, gl)
                if case["recipe"]["op"] == "table":
                    continue
                frames = diff.frames_of(case)
                kinds_hint = {}
                for t in case["tables"]:
                    for c, k in t["cols"]:
                        kinds_hint[c] = k
                kinds_hint.update(st.kinds)
                p = B.build(case["recipe"])
                b.evaluation()
                cj0 = diff.case_json(case)
                # reflexivity, independent identical rebuild
                p2 = B.build(copy.deepcopy(case["recipe"]))
                b.count("reflexive_checks")
                if not (p == p) or (p != p):
                    b.violation("not-reflexive", f"p == p is False\np: {p.to_python(pretty=False).strip()[-600:]}", case=cj0)
                    continue
                if judge_pair(b, p, p2, "identical-rebuild", frames, dict(cj0, mutation="identical-rebuild")):
                    continue
                if not (p == p2):
                    b.violation("identical-rebuild-not-equal",
                                f"an independently rebuilt identical copy does not compare equal\np: {p.to_python(pretty=False).strip()[-600:]}",
                                case=dict(cj0, mutation="identical-rebuild"))
                    continue
                try:
                    pt = B.build(copy.deepcopy(case["recipe"]), use_terms=True)
                    b.count("text_vs_term_build", "equal" if pt == p else "different")
                except Exception:
                    b.count("text_vs_term_build", "term-build-raised")
                for mi in range(MUT_PER_CASE):
                    rc = copy.deepcopy(case["recipe"])
                    nodes = list(B.walk(rc))
                    n = rng.choice(nodes)
                    shared_variant = False
                    if mi == 0:
                        # p reaches one step object along two paths: give q a private, mutated copy on the second path
                        bins = [x for x in nodes if "right" in x and x["right"]["op"] != "table"
                                and any(y is z for y in B.walk(x["src"]) for z in B.walk(x["right"]) if y["op"] != "table")]
                        if bins:
                            x = rng.choice(bins)
                            x["right"] = copy.deepcopy(x["right"])
                            inner = [y for y in B.walk(x["right"]) if y["op"] != "table"]
                            n = rng.choice(inner)
                            shared_variant = True
                            b.count("shared_subpipeline_pairs")
                    try:
                        label = mutate_node(rng, n, kinds_hint)
                        if label is not None and shared_variant:
                            label = "second-use-of-shared-step:" + label
                    except Exception as ex:
                        b.count("mutator_error", type(ex).__name__)
                        continue
                    if label is None:
                        b.count("mutation_not_applicable", n["op"])
                        continue
                    cj = json.loads(json.dumps(dict(cj0, mutated_recipe=rc, mutation=label), default=str))
                    try:
                        if label == "nary-chain-extended":
                            pp = build2(rc, "short")
                            q = build2(rc, "long")
                        elif label == "join-key-pairing":
                            rb = copy.deepcopy(rc)
                            for m_ in B.walk(rb):
                                if m_.get("_pair_base"):
                                    m_["on"] = m_["_pair_base"]
                            pp = build2(rb)
                            q = build2(rc)
                        else:
                            pp = p
                            q = build2(rc)
                    except Exception as ex:
                        b.count("mutant_does_not_build", label)
                        continue
                    b.count("mutations", label)
                    if judge_pair(b, pp, q, label, frames, cj):
                        continue
                    b.sig(f"{label}|{n['op']}|{'eq' if pp == q else 'ne'}")
                b.sample({"pipeline": diff.describe(case)[-400:]}, limit=1)
        except CaseTimeout:
            b.count("case_timeout")
        except Exception as ex:
            b.count("harness_error", type(ex).__name__ + ":" + str(ex)[:100])
    try:
        with time_limit(120):
            block_to_block_pairs(b, max(10, (N[tier] // NB[tier]) // 5))
    except CaseTimeout:
        b.count("case_timeout")
    return b.result()


def replay(v):
    c = v.get("case") or {}
    if "recipe" not in c:
        return None
    b = Batch(PID, 0, 0, "quick")
    frames = diff.frames_of(c)
    p = B.build(c["recipe"])
    label = c.get("mutation", "identical-rebuild")
    if "mutated_recipe" in c:
        rc = c["mutated_recipe"]
        if label == "nary-chain-extended":
            p, q = build2(rc, "short"), build2(rc, "long")
        elif label == "join-key-pairing":
            rb = copy.deepcopy(rc)
            for m_ in B.walk(rb):
                if m_.get("_pair_base"):
                    m_["on"] = m_["_pair_base"]
            p, q = build2(rb), build2(rc)
        else:
            q = build2(rc)
    else:
        q = B.build(copy.deepcopy(c["recipe"]))
    judge_pair(b, p, q, label, frames, c)
    return (b.violations[0]["kind"] + ": " + b.violations[0]["detail"]) if b.violations else None


# ------------------------------------------------------------------ witnesses
def w_value():
    from data_algebra.view_representations import TableDescription

    t = TableDescription(table_name="d", column_names=["x"])
    p, q, r = t.extend({"y": "x + 1"}), t.extend({"y": "x + 1.0"}), t.extend({"y": "x + True"})
    import data_algebra.SQLite

    m = data_algebra.SQLite.SQLiteModel()
    out = []
    if p == q and m.to_sql(p) != m.to_sql(q):
        out.append("extend({'y':'x + 1'}) == extend({'y':'x + 1.0'}) although their SQL differs")
    if p == r and m.to_sql(p) != m.to_sql(r):
        out.append("extend({'y':'x + 1'}) == extend({'y':'x + True'}) although their SQL differs")
    return "; ".join(out) or None


def w_table():
    from data_algebra.view_representations import TableDescription
    import data_algebra.SQLite

    m = data_algebra.SQLite.SQLiteModel()
    a = TableDescription(table_name="d", column_names=["x", "y"]).extend({"z": "x + 1"})
    c = TableDescription(table_name="d", column_names=["x", "y", "w"]).extend({"z": "x + 1"})
    if a == c and m.to_sql(a) != m.to_sql(c):
        return "pipelines over TableDescription('d',['x','y']) and TableDescription('d',['x','y','w']) compare equal although their SQL differs"
    a2 = TableDescription(table_name="d", column_names=["x", "y"])
    c2 = TableDescription(table_name="d", column_names=["x", "y", "w"])
    if a2 == c2:
        return "TableDescription('d',['x','y']) == TableDescription('d',['x','y','w'])"
    return None


WITNESSES = {FIND_VALUE: w_value, FIND_TABLE: w_table}


def inconclusive(counters, sigs, tier):
    mu = counters.get("mutations", {})
    if len(mu) < 25:
        return f"only {len(mu)} mutation operators applied"
    if counters.get("equal_pairs_sql_compared", 0) < 100:
        return "fewer than 100 equal pairs compared"
    need = ["jointype-changed", "join-key-pairing", "order-reverse-toggled", "nary-chain-extended", "lit-int-to-float",
            "assignment-order", "selection-order", "map-rename-to-deletion", "concat-label-changed", "table-name"]
    for k in need:
        if mu.get(k, 0) == 0:
            return f"mutation {k} never applied"
    return None
