"""C01 — SQLite SQL computes the same table as the Pandas executor.

Differential monitor: every generated (pipeline, input) is evaluated by the Pandas executor and as
SQLite-dialect SQL on a real in-process SQLite 3.40 through the repository's own DBHandle.
Strict lane: the data-aware generator keeps every execution outside the triggers of recorded
divergences, and a runtime trigger monitor confirms it; any mismatch there is a VIOLATION.
"""
from vf import backends, monitors
from vf import build as B
from vf import diff
from vf.compare import frames_match, frame_to_json
from vf.gen import recipes as R
from vf.util import Batch, exc_str, time_limit, CaseTimeout

PID = "C01"
LEVEL = "exploration"
RULE = (
    "random well-typed pipelines (depth 1-8 quick / 1-14 thorough) over 1-3 generated tables (0-8 / 0-40 rows; "
    "nulls, duplicates, ties, empty and single-row tables) from all public operators, data-aware so that every step "
    "is well-typed and non-degenerate; Pandas result vs SQLite result of to_sql(); non-trivial = >=2 operators and at "
    "least one of {column pruning possible, project/window present, join/concat present}; distinct = distinct "
    "(operator sequence, method set, input class tags)"
)
ASSUMPTIONS = [
    "integer / // % are never generated on int x int (documented convention); sums over groups without a non-null "
    "value are kept out by construction (accepted convention)",
    "executions that produce a non-finite intermediate on Pandas are discarded (SQLite cannot represent inf/NaN)",
    "executions inside the trigger of a recorded divergence (known_findings.json) are not generated in the strict lane",
]

N = {"quick": 1600, "thorough": 60000}
NB = {"quick": 16, "thorough": 64}


def profile(tier, rng):
    return R.Profile(allow=("null_group",), max_depth=8 if tier == "quick" else rng.choice([6, 10, 14]),
                     expr_depth=2 if tier == "quick" else rng.choice([2, 3]))


def plan(tier):
    return {"batches": NB[tier], "batch_timeout_s": 3000, "hashseeds": [0] if tier == "quick" else [0, 1, 7]}


def compare_case(case, sq, want_detail=True):
    """returns (status, detail): status in ok | mismatch | sql-raised | ref-raised"""
    try:
        ops = B.build(case["recipe"])
    except Exception as ex:
        return "build-raised", exc_str(ex)
    frames = diff.used_frames(case)
    try:
        ref = backends.run_pandas(ops, frames)
    except Exception as ex:
        return "ref-raised", exc_str(ex)
    if not R.frame_is_finite(ref):
        return "nonfinite", ""
    try:
        sql = sq.to_sql(ops)
        got = sq.run(ops, frames)
    except Exception as ex:
        return "sql-raised", exc_str(ex)
    fo = case.get("final_order")
    m = frames_match(ref, got, ordered_by=fo[0] if fo else None)
    if m:
        return "mismatch", m + ((" | pandas=%s | sqlite=%s" % (frame_to_json(ref, 8), frame_to_json(got, 8))) if want_detail else "")
    return "ok", ""


def nontrivial(case):
    ops = B.op_sequence(case["recipe"])
    nops = sum(1 for o in ops if o != "table")
    return nops >= 2 and any(o in ("project", "natural_join", "concat_rows", "select_columns", "drop_columns") or o == "extend"
                             for o in ops)


def run_batch(seed, batch, tier):
    monitors.install()
    b = Batch(PID, seed, batch, tier)
    sq = backends.Sqlite()
    n = N[tier] // NB[tier]
    gl = {}
    for i in range(n):
        monitors.OBS.reset_case()
        try:
            with time_limit(20):
                case, st = diff.new_case(b.rng, profile(tier, b.rng), tier, gl)
                b.evaluation()
                status, detail = compare_case(case, sq)
        except CaseTimeout:
            b.count("case_timeout")
            continue
        b.count("status", status)
        monitors.drain(b, None)
        trig = set(monitors.OBS.triggers) - {"sql_zero_using"}
        for t in set(monitors.OBS.triggers):
            b.count("triggers_seen", t)
        for o in B.op_sequence(case["recipe"]):
            b.count("operators", o)
        if status in ("mismatch", "sql-raised"):
            if status == "sql-raised":
                trig = trig - {"float_tie_cmp", "ill_conditioned_trig"}  # a near tie of float operands can explain a different value, not a refusal
            if trig:
                b.count("not_judged_trigger", ",".join(sorted(trig)))
                continue

            def fails(c, _status=status):
                # a candidate in which a trigger monitor fires is an execution the check does not judge: shrinking
                # must not drift there (dropping the filter that kept nulls away from a text concatenation, ...)
                monitors.OBS.reset_case()
                s, _ = compare_case(c, sq, want_detail=False)
                return s == _status and not (set(monitors.OBS.triggers) - {"sql_zero_using"})

            small = diff.shrink(case, fails)
            s2, d2 = compare_case(small, sq)
            if s2 != status:
                small, d2 = case, detail
            b.violation("pandas-vs-sqlite-" + status,
                        f"{d2}\npipeline: {diff.describe(small)}\nsql: {safe_sql(small, sq)}",
                        case=diff.case_json(small), finding_key=classify_case(small, s2 if s2 == status else status))
        elif status == "ok":
            if nontrivial(case):
                b.sig(R.signature(case["recipe"], case["tables"]))
            b.sample({"pipeline": diff.describe(case), "tables": case["tables"]}, limit=1)
    b.counters["generator"] = gl
    b.counters["monitor_calls"] = dict(monitors.OBS.calls)
    sq.close()
    return b.result()


def classify_case(case, status):
    """attribute a failing case to a listed finding by mechanism (None = not attributable)"""
    from vf import classify

    if status == "sql-raised":
        # mechanism observed where it happens: some *_to_near_sql was asked for zero columns
        monitors.OBS.triggers.discard("sql_zero_using")
        try:
            import data_algebra.SQLite

            data_algebra.SQLite.SQLiteModel().to_sql(B.build(case["recipe"]))
        except Exception:
            pass
        if "sql_zero_using" in monitors.OBS.triggers:
            return "sql-source-needs-no-columns"
    return None


def w_zero_need():
    import pandas
    import data_algebra
    from data_algebra.view_representations import TableDescription

    sq = backends.Sqlite()
    try:
        t = TableDescription(table_name="t0", column_names=["n0", "g0"])
        ops = t.select_columns(["n0"]).rename_columns({"r1": "n0"}).extend({"r1": "'b'"})
        d = pandas.DataFrame({"n0": [1, 2], "g0": ["a", "b"]})
        ref = ops.eval({"t0": d})
        try:
            got = sq.run(ops, {"t0": d})
        except Exception as ex:
            return ("Pandas evaluates select_columns(['n0']).rename_columns({'r1':'n0'}).extend({'r1':\"'b'\"}) to %d rows, "
                    "SQL generation raises %s" % (ref.shape[0], exc_str(ex)[:80]))
        return frames_match(ref, got)
    finally:
        sq.close()


def _diff_witness(build_ops, data, what):
    """None if Pandas and SQLite agree on this pipeline, else a description"""
    sq = backends.Sqlite()
    try:
        ops = build_ops()
        ref = ops.eval({k: v.copy() for k, v in data.items()})
        try:
            got = sq.run(ops, data)
        except Exception as ex:
            return f"{what}: Pandas returns {ref.shape[0]} rows, SQLite path raises {exc_str(ex)[:120]}"
        m = frames_match(ref, got)
        return None if m is None else f"{what}: {m}"
    finally:
        sq.close()


def _td(name, cols):
    from data_algebra.view_representations import TableDescription

    return TableDescription(table_name=name, column_names=cols)


def w_cross_empty():
    import pandas

    d = pandas.DataFrame({"x": [1, 2], "g": ["a", "b"]})
    e = pandas.DataFrame({"y": pandas.Series([], dtype="float64")})
    return _diff_witness(lambda: _td("d", ["x", "g"]).natural_join(_td("e", ["y"]), on=[], jointype="cross"),
                         {"d": d, "e": e}, "cross join with an empty right side")


def w_project_pruned():
    import pandas

    d = pandas.DataFrame({"x": [1.0, 2.0, 3.0]})
    return _diff_witness(lambda: _td("d", ["x"]).project({"s": "x.sum()"}).extend({"s": "1"}),
                         {"d": d}, "ungrouped project whose only output is overwritten")


def w_project_pruned_via_drop():
    import pandas

    d = pandas.DataFrame({"x": [1.0, 2.0, 3.0], "g": ["a", "b", "a"]})
    return _diff_witness(
        lambda: _td("d", ["x", "g"]).project({"a": "x.max()", "n": "(1).sum()"}).extend({"o": "a.cummax()"}, partition_by=["n"], order_by=["a"])
        .drop_columns(["a"]).project({"c": "(1).sum()"}),
        {"d": d}, "ungrouped project below a narrowing step whose consumer needs no column")


def w_narrow_keyerror():
    import pandas

    d = pandas.DataFrame({"x": [1.0, 2.0, 3.0], "g": ["a", "b", "a"], "u": [0, 1, 2]})
    return _diff_witness(
        lambda: _td("d", ["x", "g", "u"]).extend({"w": "x.max()"}, partition_by=["g"]).drop_columns(["x", "g"]).extend({"z": "u + 1"}),
        {"d": d}, "windowed extend, drop of its partition column, then extend")


def w_null_group():
    import pandas

    d = pandas.DataFrame({"x": [1.0, 2.0, 3.0, 4.0], "g": ["a", None, "a", None]})
    r = _diff_witness(lambda: _td("d", ["x", "g"]).project({"s": "x.sum()"}, group_by=["g"]), {"d": d},
                      "project grouped by a key with nulls")
    return r or _diff_witness(lambda: _td("d", ["x", "g"]).extend({"s": "x.sum()"}, partition_by=["g"]), {"d": d},
                              "windowed extend partitioned by a key with nulls")


def _records_case(kind):
    import pandas
    import data_algebra.cdata as cdata

    ct = pandas.DataFrame({"measure": ["k1", "k2"], "value": ["c1", "c2"]})
    if kind == "blocks-in-no-record-keys":
        spec = cdata.RecordSpecification(ct, record_keys=[], control_table_keys=["measure"])
        d = pandas.DataFrame({"measure": ["k1", "k2"], "value": [1.5, 2.5]})
        return (lambda: _td("d", ["measure", "value"]).convert_records(spec.map_to_rows())), {"d": d}
    spec = cdata.RecordSpecification(ct, record_keys=["id"], control_table_keys=["measure"])
    d = pandas.DataFrame({"id": [1, 2], "c1": [1.5, 2.5], "c2": [10.0, 20.0]})
    if kind == "select":
        return (lambda: _td("d", ["id", "c1", "c2"]).convert_records(spec.map_from_rows()).select_columns(["id", "measure"])), {"d": d}
    return (lambda: _td("d", ["id", "c1", "c2"]).convert_records(spec.map_from_rows()).drop_columns(["value"])), {"d": d}


def w_records_select():
    f, data = _records_case("select")
    return _diff_witness(f, data, "select_columns directly over convert_records")


def w_records_drop():
    f, data = _records_case("drop")
    return _diff_witness(f, data, "drop_columns directly over convert_records")


def w_records_nokeys():
    f, data = _records_case("blocks-in-no-record-keys")
    return _diff_witness(f, data, "blocks-to-rows convert_records without record keys")


def w_nullable_predicate():
    import pandas
    from data_algebra.view_representations import TableDescription

    sq = backends.Sqlite()
    try:
        l = pandas.DataFrame({"k": [1, 2, 3]})
        r = pandas.DataFrame({"k": [1, 2], "b": [False, True]})
        ops = TableDescription(table_name="l", column_names=["k"]).natural_join(
            TableDescription(table_name="r", column_names=["k", "b"]), on=["k"], jointype="left").select_rows("b")
        ref = ops.eval({"l": l, "r": r})
        got = sq.run(ops, {"l": l, "r": r})
        if sorted(ref["k"].tolist()) != sorted(got["k"].tolist()) or sorted(ref["k"].tolist()) != [2]:
            return (f"select_rows('b') over a left join that leaves b missing on one row: Pandas keeps k={ref['k'].tolist()}, "
                    f"SQLite keeps k={got['k'].tolist()} (b is true only for k=2)")
        return None
    finally:
        sq.close()


WITNESSES = {
    "pandas-select_rows-on-logical-column-with-missing-values": w_nullable_predicate,
    "sql-convert_records-select_columns-returns-all-columns": w_records_select,
    "sql-convert_records-drop_columns-raises": w_records_drop,
    "sql-convert_records-without-record-keys-empty-group-by": w_records_nokeys,
    "sql-source-needs-no-columns": w_zero_need,
    "pandas-cross-join-empty-side": w_cross_empty,
    "sql-ungrouped-project-all-outputs-pruned": w_project_pruned,
    "sql-narrowing-empties-terms-of-project": w_project_pruned_via_drop,
    "sql-narrowing-then-extend-merge-keyerror": w_narrow_keyerror,
    "pandas-null-group-keys-dropped": w_null_group,
}


def safe_sql(case, sq):
    try:
        return sq.to_sql(B.build(case["recipe"]))[:1500]
    except Exception as ex:
        return "<to_sql raised %s>" % exc_str(ex)


def inconclusive(counters, sigs, tier):
    st = counters.get("status", {})
    tot = sum(st.values())
    if tot == 0:
        return "no cases"
    disc = st.get("ref-raised", 0) + st.get("nonfinite", 0)
    if disc > 0.4 * tot:
        return f"discard rate {disc}/{tot}"
    need = ["extend", "project", "select_rows", "select_columns", "drop_columns", "rename_columns", "map_columns",
            "order_rows", "natural_join", "concat_rows"]
    miss = [o for o in need if counters.get("operators", {}).get(o, 0) == 0]
    if miss:
        return "operators never compared: %s" % miss
    return None


def replay(v):
    monitors.install()
    sq = backends.Sqlite()
    c = v.get("case")
    if not c:
        return None
    monitors.OBS.reset_case()
    status, detail = compare_case(c, sq)
    trig = set(monitors.OBS.triggers) - {"sql_zero_using"}
    if status == "sql-raised":
        trig = trig - {"float_tie_cmp", "ill_conditioned_trig"}
    if status in ("mismatch", "sql-raised") and not trig:
        return status + ": " + detail
    return None
