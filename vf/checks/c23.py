"""C23 — connected_components labels each edge by its component's least vertex.

Monitor: icontract postcondition installed on the real module function (so calls made
through Pandas pipelines `f.co_equalizer(g)` / `f.connected_components(g)` are observed too),
oracle = union-find reference.
"""
import itertools

from vf.util import Batch, exc_str

PID = "C23"
LEVEL = "exploration"
RULE = (
    "edge lists: bounded-exhaustive (all lists of <=4 edges on 4 vertices quick; <=5 edges on 4 and "
    "<=4 edges on 5 vertices thorough) plus random lists of <=200 edges over int/str/float/tuple vertices, "
    "directly and through Pandas pipelines; non-trivial = at least one merge of two components of size >=2 or a "
    "self-loop/repeated edge; distinct = distinct (canonical partition shape, edge count, vertex kind)"
)
EXHAUSTIVE = {"quick": True, "thorough": True}
ASSUMPTIONS = ["vertices of one call are mutually comparable (homogeneous type)"]

_post_evals = [0]
_armed = [False]


class PostBroken(Exception):
    pass


def reference(f, g):
    parent = {}

    def find(x):
        while parent[x] != x:
            parent[x] = parent[parent[x]]
            x = parent[x]
        return x

    for v in list(f) + list(g):
        parent.setdefault(v, v)
    for a, c in zip(f, g):
        ra, rc = find(a), find(c)
        if ra != rc:
            parent[ra] = rc
    comp_min = {}
    for v in parent:
        r = find(v)
        if r not in comp_min or v < comp_min[r]:
            comp_min[r] = v
    return [comp_min[find(a)] for a in f]


def _labels_ok(f, g, result):
    _post_evals[0] += 1
    f = list(f)
    g = list(g)
    return list(result) == reference(f, g)


def arm():
    if _armed[0]:
        return
    import icontract
    import data_algebra.connected_components as m

    m.connected_components = icontract.ensure(_labels_ok, error=PostBroken)(m.connected_components)
    _armed[0] = True


def shape_sig(f, g, kind):
    ref = reference(f, g)
    sizes = {}
    for a, c, l in zip(f, g, ref):
        sizes.setdefault(l, set()).update([a, c])
    return "%s:%d:%s" % (kind, len(f), sorted(len(s) for s in sizes.values()))


def nontrivial(f, g):
    if any(a == c for a, c in zip(f, g)):
        return True
    seen = set()
    for a, c in zip(f, g):
        k = frozenset((a, c))
        if k in seen:
            return True
        seen.add(k)
    # a merge of two components each of size >= 2
    comp = {}
    for a, c in zip(f, g):
        ca = comp.get(a, {a})
        cc = comp.get(c, {c})
        if ca is not cc and len(ca) >= 2 and len(cc) >= 2:
            return True
        if ca is not cc:
            ca = ca | cc
        for v in ca:
            comp[v] = ca
    return False


def check_one(b, cc, f, g, kind, via="direct"):
    b.evaluation()
    b.count("calls", via)
    try:
        got = cc(f, g)
    except PostBroken as ex:
        b.violation("cc-postcondition", f"f={f} g={g}: {exc_str(ex)}", case={"f": f, "g": g, "via": via})
        return
    except Exception as ex:
        b.violation("cc-raised", f"f={f} g={g}: {exc_str(ex)}", case={"f": f, "g": g, "via": via})
        return
    exp = reference(f, g)
    if list(got) != exp:
        b.violation("cc-labels", f"f={f} g={g}: got {list(got)} expected {exp}", case={"f": f, "g": g, "via": via})
        return
    # "same label exactly when same component" follows from exp, asserted independently:
    if nontrivial(f, g):
        b.sig(shape_sig(f, g, kind))


NB = {"quick": 8, "thorough": 16}


def plan(tier):
    return {"batches": NB[tier], "batch_timeout_s": 1500}


def mk_vertices(rng, kind, n):
    if kind == "int":
        pool = rng.sample(range(-50, 50), n)
    elif kind == "str":
        pool = rng.sample(["a", "b", "B", "", "aa", "z", "é", "10", "9", " x", "k%d"], min(n, 11))
    elif kind == "float":
        pool = rng.sample([0.0, -1.5, 2.25, 1e9, -1e-9, 3.0, 0.5, 7.75, 100.0, -3.0, 11.0], min(n, 11))
    else:
        pool = rng.sample([(i, j) for i in range(4) for j in "ab"], min(n, 8))
    return pool


def run_batch(seed, batch, tier):
    arm()
    import data_algebra.connected_components as m
    import data_algebra
    import pandas

    b = Batch(PID, seed, batch, tier)
    nb = NB[tier]

    def cc(f, g):
        return m.connected_components(f, g)

    spaces = [(4, 4)] if tier == "quick" else [(4, 5), (5, 4)]
    idx = 0
    for nv, maxe in spaces:
        edges = [(i, j) for i in range(nv) for j in range(nv)]
        for k in range(0, maxe + 1):
            for el in itertools.product(edges, repeat=k):
                idx += 1
                if idx % nb != batch:
                    continue
                check_one(b, cc, [e[0] for e in el], [e[1] for e in el], "int", "exhaustive")
    nrand = 250 if tier == "quick" else 5000
    for i in range(nrand):
        kind = ["int", "str", "float", "tuple"][i % 4]
        pool = mk_vertices(b.rng, kind, b.rng.randint(1, 11))
        ne = b.rng.choice([0, 1, 2, 3, 5, 8, 13, 30, 200]) if i % 7 == 0 else b.rng.randint(0, 14)
        f = [b.rng.choice(pool) for _ in range(ne)]
        g = [b.rng.choice(pool) for _ in range(ne)]
        check_one(b, cc, f, g, kind, "random")
    # through pipelines (Pandas executor) -- the postcondition monitor observes the inner call
    npipe = 60 if tier == "quick" else 800
    for i in range(npipe):
        kind = ["int", "str", "float"][i % 3]
        pool = mk_vertices(b.rng, kind, b.rng.randint(1, 8))
        ne = b.rng.randint(1, 12)
        f = [b.rng.choice(pool) for _ in range(ne)]
        g = [b.rng.choice(pool) for _ in range(ne)]
        d = pandas.DataFrame({"f": f, "g": g})
        meth = ["co_equalizer", "connected_components"][i % 2]
        before = _post_evals[0]
        b.evaluation()
        b.count("calls", "pipeline:" + meth)
        try:
            expr = "f.co_equalizer(g)" if meth == "co_equalizer" else "connected_components(f, g)"
            ops = data_algebra.descr(d=d).extend({"c": expr})
            res = ops.transform(d)
            got = list(res["c"])
            exp = reference(f, g)
            if got != exp:
                b.violation("cc-pipeline", f"{meth} f={f} g={g}: got {got} expected {exp}",
                            case={"f": f, "g": g, "via": meth})
            elif _post_evals[0] == before:
                b.count("pipeline_call_not_observed_by_postcondition")
            elif nontrivial(f, g):
                b.sig(shape_sig(f, g, "pipe-" + kind))
        except PostBroken as ex:
            b.violation("cc-postcondition", f"{meth} f={f} g={g}: {exc_str(ex)}", case={"f": f, "g": g, "via": meth})
        except Exception as ex:
            b.violation("cc-pipeline-raised", f"{meth} f={f} g={g}: {exc_str(ex)}", case={"f": f, "g": g, "via": meth})
    b.counters["postcondition_evaluations"] = _post_evals[0]
    b.sample({"f": [1, 4, 6, 2, 1], "g": [2, 5, 7, 3, 7], "expected": reference([1, 4, 6, 2, 1], [2, 5, 7, 3, 7])})
    return b.result()


def inconclusive(counters, sigs, tier):
    if counters.get("postcondition_evaluations", 0) == 0:
        return "postcondition never evaluated"
    if counters.get("pipeline_call_not_observed_by_postcondition", 0) > 0:
        return "pipeline path bypasses the installed postcondition"
    return None


def replay(v):
    arm()
    import data_algebra.connected_components as m

    c = v.get("case") or {}
    f = [tuple(x) if isinstance(x, list) else x for x in c.get("f", [])]
    g = [tuple(x) if isinstance(x, list) else x for x in c.get("g", [])]
    b = Batch(PID, 0, 0, "quick")
    check_one(b, lambda a, c2: m.connected_components(a, c2), f, g, "replay")
    return b.violations[0]["detail"] if b.violations else None
