"""C02 — PostgreSQL-dialect SQL computes the same table as the Pandas executor (on a SQLite surrogate).

There is no PostgreSQL server in the sandbox.  What is observed: PostgreSQLModel().to_sql() text of random pipelines in
an engine-neutral fragment is executed on SQLite 3.40 (native RIGHT/FULL JOIN, CTEs, window functions) with the
double-quoted-string fallback disabled and PostgreSQL-named functions registered with PostgreSQL's documented
semantics; the result is compared with the Pandas result exactly as in C01.  Half of the cases use use_cte_elim=True,
so the CTE re-use path and the native (non-emulated) join translation - the paths the SQLite dialect never takes - are
executed and compared.  Every generated text is additionally run through a PostgreSQL lexer (string / identifier /
comment / dollar-quote rules): it must tokenise to the end.
"""
from vf import backends, monitors
from vf import build as B
from vf import diff
from vf.compare import frames_match, frame_to_json
from vf.gen import recipes as R
from vf.util import Batch, exc_str, time_limit, CaseTimeout
from vf import sqllex

PID = "C02"
LEVEL = "exploration"
RULE = (
    "random well-typed pipelines of the engine-neutral fragment (all public operators; joins of all five types with "
    "same-named and differently named keys incl. native RIGHT/FULL; shared sub-pipelines; float arithmetic, "
    "comparisons, CASE, COALESCE, string concatenation, LN/STDDEV_SAMP/VAR_SAMP through shims) over 1-3 generated tables; "
    "use_cte_elim on in half of the cases; Pandas result vs the PostgreSQL text executed on the SQLite surrogate; "
    "non-trivial = >= 2 operators and one of {right/full join, CTE re-use observed, project/window present}; distinct = "
    "distinct (operator sequence, method set, input tags, cte_elim flag)"
)
ASSUMPTIONS = [
    "SQLite 3.40 implements the SQL-standard meaning of the fragment; the shims implement the PostgreSQL documentation",
    "nothing that depends on PostgreSQL's own runtime is observed: type resolution, errors on division by zero, NULL "
    "ordering, numeric rounding, identifier case folding, '+infinity' literals (is_bad / is_inf are kept out)",
    "integer / // % are never generated on int x int; sums over groups without a non-null value are kept out",
]

SURROGATE_ONLY = ("ON clause references tables to its right", "parser stack overflow")
N = {"quick": 1400, "thorough": 60000}
NB = {"quick": 16, "thorough": 64}


def profile(tier, rng):
    return R.Profile(allow=("null_group", "null_join"), max_depth=8 if tier == "quick" else rng.choice([6, 10, 14]),
                     expr_depth=2 if tier == "quick" else rng.choice([2, 3]), pair_keys_p=0.3, self_join_p=0.3,
                     null_tests=["is_null"],
                     # the PostgreSQL convert_records text (VALUES table syntax) cannot run on the SQLite surrogate
                     ops={"extend": 5, "wextend": 2, "owextend": 2, "project": 2, "select_rows": 3, "select_columns": 1,
                          "drop_columns": 1, "rename_columns": 1, "map_columns": 1, "order_rows": 1, "natural_join": 2,
                          "concat_rows": 1},
                     agg_methods=["sum", "mean", "min", "max", "count", "size", "_size", "one_sum", "std", "var"],
                     win_methods=["sum", "mean", "min", "max", "count", "size", "_size", "std", "var"])


def plan(tier):
    return {"batches": NB[tier], "batch_timeout_s": 3000, "hashseeds": [0] if tier == "quick" else [0, 1, 7]}


def options(cte_elim):
    from data_algebra.sql_format_options import SQLFormatOptions

    return SQLFormatOptions(use_cte_elim=bool(cte_elim))


def compare_case(case, pg, cte_elim, want_detail=True):
    """returns (status, detail, sql)"""
    try:
        ops = B.build(case["recipe"])
    except Exception as ex:
        return "build-raised", exc_str(ex), None
    frames = diff.used_frames(case)
    try:
        ref = backends.run_pandas(ops, frames)
    except Exception as ex:
        return "ref-raised", exc_str(ex), None
    if not R.frame_is_finite(ref):
        return "nonfinite", "", None
    sql = None
    try:
        sql = pg.to_sql(ops, sql_format_options=options(cte_elim))
    except Exception as ex:
        return "sql-raised", "to_sql: " + exc_str(ex), sql
    try:
        pg.load(frames)
        got = pg.run_sql(sql)
    except Exception as ex:
        msg = str(ex)
        if any(t in msg for t in SURROGATE_ONLY):
            # text PostgreSQL accepts but the SQLite surrogate cannot run: excluded and counted, not judged
            return "surrogate-cannot-run", msg[-120:], sql
        return "sql-raised", exc_str(ex)[-600:], sql
    fo = case.get("final_order")
    m = frames_match(ref, got, ordered_by=fo[0] if fo else None)
    if m:
        return "mismatch", m + ((" | pandas=%s | pg-text-on-sqlite=%s" % (frame_to_json(ref, 8), frame_to_json(got, 8))) if want_detail else ""), sql
    return "ok", "", sql


def features(case, sql):
    f = set()
    for n in B.walk(case["recipe"]):
        if n["op"] == "natural_join" and n["jointype"].lower() in ("right", "full"):
            f.add("native-" + n["jointype"].lower() + "-join")
        if n["op"] == "project":
            f.add("project")
        if n["op"] == "extend" and (n.get("partition_by") or n.get("order_by")):
            f.add("window")
    return f


def classify(case, status):
    """attribute a refusal to the recorded finding by its mechanism, observed on THIS dialect's generator: some
    *_to_near_sql of the PostgreSQL model was asked for zero columns of a source (the SQLite dialect can take another
    path through the same pipeline, e.g. its join emulations, so C01's attribution is not asked)"""
    if status == "sql-raised":
        monitors.OBS.triggers.discard("sql_zero_using")
        try:
            import data_algebra.PostgreSQL

            data_algebra.PostgreSQL.PostgreSQLModel().to_sql(B.build(case["recipe"]))
        except Exception:
            pass
        if "sql_zero_using" in monitors.OBS.triggers:
            return "sql-source-needs-no-columns"
    return None


def run_batch(seed, batch, tier):
    monitors.install()
    b = Batch(PID, seed, batch, tier)
    pg = backends.PgSurrogate()
    n = N[tier] // NB[tier]
    gl = {}
    for i in range(n):
        monitors.OBS.reset_case()
        try:
            with time_limit(30):
                case, st = diff.new_case(b.rng, profile(tier, b.rng), tier, gl)
                cte = b.rng.random() < 0.5
                b.evaluation()
                status, detail, sql = compare_case(case, pg, cte)
        except CaseTimeout:
            b.count("case_timeout")
            continue
        b.count("status", status)
        b.count("cte_elim", "on" if cte else "off")
        trig = set(monitors.OBS.triggers) - {"sql_zero_using"}
        for o in B.op_sequence(case["recipe"]):
            b.count("operators", o)
        if sql is not None:
            lx = sqllex.lex(sql, "postgresql")
            b.count("lexer", "ok" if lx is None else "failed")
            if lx is not None:
                b.violation("postgresql-text-does-not-tokenise", f"{lx}\nsql: {sql[-800:]}", case=diff.case_json(case, {"cte_elim": cte}))
                continue
        if status in ("mismatch", "sql-raised"):
            if status == "sql-raised":
                trig = trig - {"float_tie_cmp", "ill_conditioned_trig"}  # a near tie of float operands can explain a different value, not a refusal
            if trig:
                b.count("not_judged_trigger", ",".join(sorted(trig)))
                continue

            def fails(c, _status=status):
                # candidates in which a trigger monitor fires are executions the check does not judge (see C01)
                monitors.OBS.reset_case()
                s, _, _ = compare_case(c, pg, cte, want_detail=False)
                return s == _status and not (set(monitors.OBS.triggers) - {"sql_zero_using"})

            small = diff.shrink(case, fails)
            s2, d2, sql2 = compare_case(small, pg, cte)
            if s2 != status:
                small, d2, sql2 = case, detail, sql
            b.violation("pandas-vs-postgresql-text-" + status,
                        f"{d2}\npipeline: {diff.describe(small)}\nsql (use_cte_elim={cte}): {(sql2 or '')[:1500]}",
                        case=diff.case_json(small, {"cte_elim": cte}), finding_key=classify(small, status))
        elif status == "ok":
            f = features(case, sql)
            for x in f:
                b.count("features", x)
            if sum(1 for o in B.op_sequence(case["recipe"]) if o != "table") >= 2 and f:
                b.sig(R.signature(case["recipe"], case["tables"], "cte" if cte else "nocte"))
            b.sample({"pipeline": diff.describe(case), "cte_elim": cte}, limit=1)
    b.counters["generator"] = {k: v for k, v in gl.items() if k.startswith(("step:", "paired", "self_join"))}
    pg.close()
    return b.result()


def replay(v):
    monitors.install()
    pg = backends.PgSurrogate()
    c = v.get("case")
    if not c:
        return None
    monitors.OBS.reset_case()
    status, detail, sql = compare_case(c, pg, bool(c.get("cte_elim")))
    trig = set(monitors.OBS.triggers) - {"sql_zero_using"}
    if status == "sql-raised":
        trig = trig - {"float_tie_cmp", "ill_conditioned_trig"}
    if status in ("mismatch", "sql-raised") and not trig:
        return status + ": " + detail
    return None


def w_zero_need():
    import pandas
    from data_algebra.view_representations import TableDescription

    pg = backends.PgSurrogate()
    try:
        t = TableDescription(table_name="t0", column_names=["n0", "g0"])
        ops = t.select_columns(["n0"]).rename_columns({"r1": "n0"}).extend({"r1": "'b'"})
        d = pandas.DataFrame({"n0": [1, 2], "g0": ["a", "b"]})
        ref = ops.eval({"t0": d})
        try:
            got = pg.run(ops, {"t0": d})
        except Exception as ex:
            return ("Pandas evaluates the pipeline to %d rows, PostgreSQL SQL generation raises %s" % (ref.shape[0], exc_str(ex)[:80]))
        return frames_match(ref, got)
    finally:
        pg.close()


WITNESSES = {"sql-source-needs-no-columns": w_zero_need}


def inconclusive(counters, sigs, tier):
    st = counters.get("status", {})
    tot = sum(st.values())
    if tot == 0:
        return "no cases"
    disc = st.get("ref-raised", 0) + st.get("nonfinite", 0)
    if disc > 0.4 * tot:
        return f"discard rate {disc}/{tot}"
    f = counters.get("features", {})
    for k in ("native-right-join", "native-full-join", "project", "window"):
        if f.get(k, 0) < 5:
            return f"feature {k} compared {f.get(k, 0)} times"
    if counters.get("cte_elim", {}).get("on", 0) < 50:
        return "use_cte_elim=True exercised fewer than 50 times"
    if counters.get("lexer", {}).get("ok", 0) < 100:
        return "PostgreSQL lexer saw fewer than 100 texts"
    return None
