"""C13 — expression text is parsed with Python's precedence and meaning.

Oracle: CPython `eval` of the same text vs a small interpreter of the parsed Term tree that maps
each node's op to the Python operator of that name.  Plus print/parse round trip (equal tree and
equal value).
"""
import itertools
import math
import operator

from vf.util import Batch, exc_str, time_limit, CaseTimeout

PID = "C13"
LEVEL = "exploration"
RULE = (
    "expression texts: every flat token sequence `u0 A0 op1 u1 A1 ... opk uk Ak` with k<=3 (quick) / k<=4 (thorough) "
    "binary operators from {+ - * / // % **}, every subset of operands negated, every single parenthesised span, "
    "optionally a .abs() method suffix; boolean layer: comparisons of such terms joined by and/or/not in every "
    "order up to 3 connectives; random larger mixes; each text evaluated on 5 operand tuples by CPython and by an "
    "interpreter of the parsed tree; non-trivial = at least two operators that differ in precedence or "
    "associativity (or a unary/method operator next to a binary one); distinct = distinct operator skeletons"
)
EXHAUSTIVE = {"quick": True, "thorough": True}
ASSUMPTIONS = [
    "operand tuples avoid zero divisors, complex results and overflow (cases where CPython raises are discarded)",
    "and/or/not are only applied to booleans, where Python and the DSL agree",
]

BIN = ["+", "-", "*", "/", "//", "%", "**"]
CMP = ["<", "<=", ">", ">=", "==", "!="]
NAMES = ["x", "y", "z", "w", "v"]


class V(float):
    """operand for CPython: a float that also carries the DSL's method forms"""

    def abs(self):
        return V(abs(float(self)))

    def sign(self):
        return V((self > 0) - (self < 0))

    def maximum(self, o):
        return V(max(float(self), float(o)))


def _wrap(name):
    f = getattr(float, name)

    def g(self, *a):
        r = f(self, *a)
        if r is NotImplemented:
            return r
        return V(r) if isinstance(r, float) else r

    return g


for _n in ["__add__", "__radd__", "__sub__", "__rsub__", "__mul__", "__rmul__", "__truediv__", "__rtruediv__",
           "__floordiv__", "__rfloordiv__", "__mod__", "__rmod__", "__neg__", "__pos__"]:
    setattr(V, _n, _wrap(_n))


def _pow(self, o):
    r = float.__pow__(float(self), float(o))
    return V(r) if isinstance(r, float) else r


def _rpow(self, o):
    r = float.__pow__(float(o), float(self))
    return V(r) if isinstance(r, float) else r


V.__pow__ = _pow
V.__rpow__ = _rpow

ENVS = [
    {"x": 7, "y": 3, "z": 2, "w": 5, "v": 4, "a": True, "b": False, "c": True},
    {"x": 2, "y": 5, "z": 3, "w": 2, "v": 7, "a": False, "b": True, "c": False},
    {"x": -3, "y": 2, "z": 4, "w": -5, "v": 3, "a": True, "b": True, "c": False},
    {"x": 2.5, "y": 0.5, "z": 3.0, "w": 1.5, "v": 2.0, "a": False, "b": False, "c": True},
    {"x": 3, "y": -2, "z": 2, "w": 3, "v": -4, "a": True, "b": False, "c": False},
]


def fold(f, args):
    r = args[0]
    for a in args[1:]:
        r = f(r, a)
    return r


def interp(t, env, er):
    if isinstance(t, er.Value):
        return t.value
    if isinstance(t, er.ColumnReference):
        return env[t.column_name]
    if isinstance(t, er.Expression):
        a = [interp(x, env, er) for x in t.args]
        op = t.op
        if op == "+":
            return fold(operator.add, a)
        if op == "*":
            return fold(operator.mul, a)
        if op == "-":
            return -a[0] if len(a) == 1 else a[0] - a[1]
        if op == "/":
            return a[0] / a[1]
        if op == "//":
            return a[0] // a[1]
        if op == "%":
            return a[0] % a[1]
        if op == "**":
            return a[0] ** a[1]
        if op == "==":
            return a[0] == a[1]
        if op == "!=":
            return a[0] != a[1]
        if op == "<":
            return a[0] < a[1]
        if op == "<=":
            return a[0] <= a[1]
        if op == ">":
            return a[0] > a[1]
        if op == ">=":
            return a[0] >= a[1]
        if op == "and":
            return fold(lambda p, q: p and q, a)
        if op == "or":
            return fold(lambda p, q: p or q, a)
        if op == "abs":
            return abs(a[0])
        if op == "sign":
            return (a[0] > 0) - (a[0] < 0)
        if op == "maximum":
            return max(a[0], a[1])
        raise KeyError("interpreter has no op " + op)
    raise TypeError(type(t))


def same(p, q):
    if isinstance(p, complex) or isinstance(q, complex):
        return None
    if isinstance(p, bool) or isinstance(q, bool):
        return bool(p) == bool(q)
    try:
        p = float(p)
        q = float(q)
    except OverflowError:
        return p == q
    if math.isnan(p) or math.isnan(q):
        return None
    if math.isinf(p) or math.isinf(q):
        return p == q
    return abs(p - q) <= 1e-9 + 1e-9 * max(abs(p), abs(q))


def check_text(b, pl, er, ddef, text, skeleton, cls, nontrivial):
    """parse `text`, compare meaning with CPython on every env; round trip."""
    try:
        tree = pl.parse_by_lark(text, data_def=ddef)
    except Exception as ex:
        b.count("parser_rejected", type(ex).__name__)
        return
    try:
        printed = str(tree.to_python())
        tree2 = pl.parse_by_lark(printed, data_def=ddef)
        rt_equal = tree.is_equal(tree2)
    except Exception as ex:
        b.violation("roundtrip-raised", f"text={text!r}: print/parse raised {exc_str(ex)}",
                    case={"text": text}, finding_key=classify(text, cls, None))
        return
    judged = 0
    for env in ENVS:
        b.evaluation()
        pyenv = {k: (V(v) if not isinstance(v, bool) else v) for k, v in env.items()}
        try:
            with time_limit(2.0):
                want = eval(text, {"__builtins__": {}}, pyenv)
        except CaseTimeout:
            b.count("cpython_timeout")
            continue
        except Exception as ex:
            b.count("cpython_raised", type(ex).__name__)
            continue
        # the same operand types on both sides (floats): with exact ints on one side only, results beyond 2**53 differ
        # legitimately (21 ** 32 % -4 is -3 exactly and -0.0 in floating point)
        fenv = {k: (float(v) if not isinstance(v, bool) else v) for k, v in env.items()}
        try:
            got = interp(tree, fenv, er)
            got2 = interp(tree2, fenv, er)
        except (ZeroDivisionError, OverflowError):
            b.count("interp_arith_error")
            continue
        except Exception as ex:
            # CPython short-circuits and/or, the tree interpreter is eager: domain errors here are not judged
            b.count("interp_raised", type(ex).__name__)
            continue
        s = same(want, got)
        if s is None:
            b.count("complex_or_nan_discarded")
            continue
        judged += 1
        if not s:
            b.violation(
                "meaning-differs-from-python",
                f"text={text!r} env={env}: CPython={want!r} parsed-tree={got!r} tree-prints-as={printed!r}",
                case={"text": text, "env": env}, finding_key=classify(text, cls, "meaning"))
            return
        s2 = same(got, got2)
        if s2 is False:
            b.violation(
                "print-parse-changes-value",
                f"text={text!r} prints as {printed!r} which evaluates to {got2!r} instead of {got!r} at env={env}",
                case={"text": text, "env": env}, finding_key=classify(text, cls, "roundtrip"))
            return
    if not rt_equal:
        b.violation("print-parse-not-equal", f"text={text!r} prints as {printed!r} which parses to a different tree",
                    case={"text": text}, finding_key=classify(text, cls, "roundtrip"))
        return
    b.count("texts_judged", cls)
    if judged and nontrivial:
        b.sig(cls + ":" + skeleton)
    if judged:
        b.sample({"text": text, "prints_as": printed, "class": cls}, limit=3)


def classify(text, cls, what):
    if cls == "chain":
        return "comparison-chain-parsed-left-assoc"
    return None


def arith_texts(kmax, with_method=False):
    """flat arithmetic texts with every unary-minus subset and every single paren span"""
    for k in range(1, kmax + 1):
        for ops in itertools.product(BIN, repeat=k):
            if sum(1 for o in ops if o == "**") > 2:
                continue
            for neg in itertools.product([0, 1], repeat=k + 1):
                spans = [None] + [(i, j) for i in range(k + 1) for j in range(i + 1, k + 1) if not (i == 0 and j == k)]
                for sp in spans:
                    toks = []
                    for i in range(k + 1):
                        t = NAMES[i]
                        if with_method and i == k:
                            t = t + ".abs()"
                        if neg[i]:
                            t = "-" + t
                        if sp and sp[0] == i:
                            t = "(" + t
                        if sp and sp[1] == i:
                            t = t + ")"
                        toks.append(t)
                        if i < k:
                            toks.append(ops[i])
                    text = " ".join(toks)
                    skel = " ".join(ops) + "|n" + "".join(map(str, neg)) + "|p" + (("%d%d" % sp) if sp else "-") + (
                        "|m" if with_method else "")
                    prec = {"+": 1, "-": 1, "*": 2, "/": 2, "//": 2, "%": 2, "**": 3}
                    nontriv = (k >= 2 and (len({prec[o] for o in ops}) > 1 or any(o in ("-", "/", "//", "%", "**") for o in ops))) \
                        or (any(neg) and any(o == "**" for o in ops)) or (k >= 1 and with_method)
                    yield text, skel, nontriv


def bool_texts(kmax):
    atoms = ["a", "b", "c", "x < y", "y + 1 >= z * 2", "not a", "x == w"]
    for k in range(1, kmax + 1):
        for conns in itertools.product(["and", "or"], repeat=k):
            for nots in itertools.product([0, 1], repeat=k + 1):
                for sp in [None] + [(i, j) for i in range(k + 1) for j in range(i + 1, k + 1) if not (i == 0 and j == k)]:
                    for rot in range(2):
                        toks = []
                        for i in range(k + 1):
                            t = atoms[(i + rot * 3) % len(atoms)]
                            if nots[i]:
                                t = "not " + t
                            if sp and sp[0] == i:
                                t = "(" + t
                            if sp and sp[1] == i:
                                t = t + ")"
                            toks.append(t)
                            if i < k:
                                toks.append(conns[i])
                        text = " ".join(toks)
                        skel = " ".join(conns) + "|n" + "".join(map(str, nots)) + "|p" + (("%d%d" % sp) if sp else "-") + "|r%d" % rot
                        nontriv = len(set(conns)) > 1 or any(nots)
                        yield text, skel, nontriv


def cmp_texts():
    for c in CMP:
        for l, r in [("x + y", "z * w"), ("-x", "y ** 2"), ("x % y", "z // w"), ("x - y - z", "w")]:
            yield f"{l} {c} {r}", f"cmp {c} {l}|{r}", True


def chain_texts():
    for c1 in CMP[:4]:
        for c2 in CMP[:4]:
            yield f"x {c1} y {c2} z", f"chain {c1} {c2}", True


NB = {"quick": 16, "thorough": 16}
K = {"quick": 3, "thorough": 4}


def plan(tier):
    return {"batches": NB[tier], "batch_timeout_s": 3000}


def run_batch(seed, batch, tier):
    import data_algebra.parse_by_lark as pl
    import data_algebra.expr_rep as er

    b = Batch(PID, seed, batch, tier)
    ddef = {n: er.ColumnReference(n) for n in NAMES + ["a", "b", "c"]}
    nb = NB[tier]
    i = 0
    gens = [
        ("arith", arith_texts(K[tier])),
        ("arith-method", arith_texts(min(K[tier], 3) - 1 if tier == "quick" else 3, with_method=True)),
        ("bool", bool_texts(3)),
        ("cmp", cmp_texts()),
        ("chain", chain_texts()),
    ]
    for cls, g in gens:
        for text, skel, nontriv in g:
            i += 1
            if i % nb != batch:
                continue
            check_text(b, pl, er, ddef, text, skel, cls, nontriv)
    # random larger mixes
    nrand = 300 if tier == "quick" else 6000
    for _ in range(nrand):
        text, skel = random_text(b.rng)
        check_text(b, pl, er, ddef, text, "rnd:" + skel, "random", True)
    return b.result()


def random_text(rng, depth=0):
    def num(d):
        r = rng.random()
        if d > 3 or r < 0.3:
            return rng.choice(NAMES + ["2", "3", "0.5", "1"]), "A"
        if r < 0.4:
            t, s = num(d + 1)
            return "-" + t, "-" + s
        if r < 0.5:
            t, s = num(d + 1)
            return "(" + t + ")", "(" + s + ")"
        if r < 0.56:
            t, s = num(d + 1)
            return "(" + t + ").abs()", "(" + s + ").abs"
        op = rng.choice(BIN if d < 2 else BIN[:6])
        l, ls = num(d + 1)
        r_, rs = num(d + 1)
        return f"{l} {op} {r_}", f"{ls}{op}{rs}"

    def boo(d):
        r = rng.random()
        if d > 2 or r < 0.35:
            l, ls = num(1)
            r_, rs = num(1)
            c = rng.choice(CMP)
            return f"{l} {c} {r_}", f"{ls}{c}{rs}"
        if r < 0.5:
            t, s = boo(d + 1)
            return "not " + t, "!" + s
        if r < 0.6:
            t, s = boo(d + 1)
            return "(" + t + ")", "(" + s + ")"
        c = rng.choice(["and", "or"])
        l, ls = boo(d + 1)
        r_, rs = boo(d + 1)
        return f"{l} {c} {r_}", f"{ls} {c} {rs}"

    return boo(0) if rng.random() < 0.5 else num(0)


def w_chain():
    import data_algebra.parse_by_lark as pl
    import data_algebra.expr_rep as er

    ddef = {n: er.ColumnReference(n) for n in NAMES}
    tree = pl.parse_by_lark("x < y < z", data_def=ddef)
    env = {"x": 1, "y": 5, "z": 3}
    want = eval("x < y < z", {}, dict(env))
    got = interp(tree, env, er)
    if bool(want) != bool(got):
        return f"'x < y < z' at x=1,y=5,z=3: Python {want}, parsed tree {got} (parsed as (x < y) < z)"
    return None


def w_neg_pow():
    import data_algebra.parse_by_lark as pl
    import data_algebra.expr_rep as er

    ddef = {n: er.ColumnReference(n) for n in NAMES}
    for text in ("(-x) ** 2", "(-3) ** 2", "2 ** (-x) ** 2"):
        tree = pl.parse_by_lark(text, data_def=ddef)
        printed = str(tree.to_python())
        tree2 = pl.parse_by_lark(printed, data_def=ddef)
        env = {"x": 3}
        if interp(tree, env, er) != interp(tree2, env, er):
            return f"{text!r} prints as {printed!r}, which means {interp(tree2, env, er)} instead of {interp(tree, env, er)}"
    return None


WITNESSES = {"comparison-chain-parsed-left-assoc": w_chain, "negated-operand-of-power-printed-without-parens": w_neg_pow}


def inconclusive(counters, sigs, tier):
    tj = counters.get("texts_judged", {})
    for cls in ("arith", "bool", "cmp", "arith-method", "random"):
        if tj.get(cls, 0) < 10:
            return f"class {cls} judged only {tj.get(cls, 0)} texts"
    rej = sum(counters.get("parser_rejected", {}).values())
    tot = sum(tj.values()) + rej
    if rej > 0.4 * max(tot, 1):
        return f"parser rejected {rej} of {tot} texts"
    return None


def replay(v):
    import data_algebra.parse_by_lark as pl
    import data_algebra.expr_rep as er

    c = v.get("case") or {}
    b = Batch(PID, 0, 0, "quick")
    ddef = {n: er.ColumnReference(n) for n in NAMES + ["a", "b", "c"]}
    check_text(b, pl, er, ddef, c.get("text", "x"), "replay", "replay", True)
    return b.violations[0]["detail"] if b.violations else None
