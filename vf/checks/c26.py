"""C26 — the builder rejects ill-formed steps when the step is added, and accepts well-formed ones.

For a valid prefix (random pipeline from the shared generator, ending in every operator kind, in particular the
ones the builder simplifies away) a set of probe steps is offered to the *chained* builder.  The oracle is a
reference rule evaluator (`judge`) that reads only the step's arguments and the prefix's declared columns (the
columns of the materialised prefix), written from the property's rule list with Python's own `ast` for the
expression analysis; the builder must raise at the call iff the judge says the step breaks a rule.
"""
import ast

from vf import monitors
from vf import build as B
from vf import diff
from vf.gen import recipes as R
from vf.util import Batch, exc_str, time_limit, CaseTimeout

PID = "C26"
LEVEL = "exploration"
RULE = (
    "valid prefixes (depth 1-8 quick / 1-12 thorough) from the shared generator, ending in every operator kind "
    "(order_rows without limit, select/drop chains, mergeable extends boosted); per prefix 10 probe steps drawn from "
    "rule-violating templates (unknown column - never existed or removed earlier - in every argument position of "
    "every builder, assignment of a partition/order column, use of a column produced in the same extend, "
    "non-aggregating / too-complex project and window expressions, join with missing keys, join with non-key common "
    "columns and the check requested, concat of different column sets) and rule-conforming counterparts; "
    "non-trivial = probe judged; distinct = distinct (prefix ending kind, probe template, unknown-column flavour)"
)
ASSUMPTIONS = [
    "the reference rule evaluator (judge) is the meaning of the property's rule list",
    "the declared columns of a prefix are the columns of its materialised (Pandas) result",
]

N = {"quick": 1600, "thorough": 60000}
NB = {"quick": 16, "thorough": 64}
PROBES_PER_PREFIX = 10

AGGS = {"sum", "mean", "min", "max", "count", "size", "median", "std", "var", "nunique", "any", "all", "first", "last",
        "cumsum", "cummax", "cummin", "cumprod", "cumcount", "shift", "rank", "bfill", "ffill", "any_value"}
AGG_FUNCS = {"_size", "_count", "_row_number", "_ngroup", "_uniform"}
FINDING_SCALAR_IN_AGG = "aggregation-step-accepts-scalar-method"


def plan(tier):
    return {"batches": NB[tier], "batch_timeout_s": 3000}


def profile(tier, rng):
    return R.Profile(allow=R.HAZARDS, max_depth=8 if tier == "quick" else rng.choice([8, 12]),
                     ops={"extend": 4, "wextend": 1, "owextend": 1, "project": 1, "select_rows": 2, "select_columns": 3,
                          "drop_columns": 3, "rename_columns": 2, "map_columns": 2, "order_rows": 4, "natural_join": 2,
                          "concat_rows": 1}, self_join_p=0.1, final_order_p=0.0, pair_keys_p=0.25)


# ------------------------------------------------------------------ reference rule evaluator
def names_of(text):
    """column names an expression text refers to (Python's own parser; call targets are not columns)"""
    tree = ast.parse(text, mode="eval")
    called = {id(n.func) for n in ast.walk(tree) if isinstance(n, ast.Call)}
    return {n.id for n in ast.walk(tree) if isinstance(n, ast.Name) and id(n) not in called}


def agg_shape(text):
    """'agg' = aggregator applied directly to a column/constant with constant extra arguments; 'scalar-method' = a
    non-aggregating method/operator applied the same simple way; 'other' = anything else (plain column, constant,
    nested expression)"""
    node = ast.parse(text, mode="eval").body
    if isinstance(node, ast.Call):
        simple_args = all(isinstance(a, ast.Constant) for a in node.args)
        if isinstance(node.func, ast.Name):
            return "agg" if (node.func.id in AGG_FUNCS and not node.args) else "other"
        if isinstance(node.func, ast.Attribute):
            recv = node.func.value
            if isinstance(recv, ast.Call) and not recv.args and isinstance(recv.func, ast.Name):
                recv_simple = False
            else:
                recv_simple = isinstance(recv, (ast.Name, ast.Constant))
            if recv_simple and simple_args:
                return "agg" if node.func.attr in AGGS else "scalar-method"
            return "other"
    if isinstance(node, ast.BinOp) and isinstance(node.left, ast.Name) and isinstance(node.right, ast.Constant):
        return "scalar-method"
    return "other"


def judge(kind, a, declared, right=None):
    """returns None if the step follows every rule, else the name of the (first) broken rule"""
    D = set(declared)
    if kind == "extend":
        ops = a["ops"]
        part = a.get("partition_by") or []
        order = a.get("order_by") or []
        rev = a.get("reverse") or []
        pl = [] if part == 1 else list(part)
        for t, e in ops.items():
            if names_of(e) - D:
                return "unknown-column"
        if (set(pl) | set(order) | set(rev)) - D:
            return "unknown-column"
        if set(rev) - set(order):
            return "unknown-column"
        if set(ops) & (set(pl) | set(order)):
            return "changes-partition-or-order-column"
        for t, e in ops.items():
            if (names_of(e) - {t}) & set(ops):
                return "uses-column-produced-in-same-extend"
        windowed = part == 1 or len(pl) > 0 or len(order) > 0
        if windowed:
            for t, e in ops.items():
                s = agg_shape(e)
                if s == "scalar-method":
                    return "non-aggregating-scalar-method"
                if s != "agg":
                    return "non-aggregating-or-complex"
        return None
    if kind == "project":
        ops = a["ops"]
        gb = a.get("group_by") or []
        for t, e in ops.items():
            if names_of(e) - D:
                return "unknown-column"
        if set(gb) - D:
            return "unknown-column"
        if set(ops) & set(gb):
            return "changes-partition-or-order-column"
        for t, e in ops.items():
            s = agg_shape(e)
            if s == "scalar-method":
                return "non-aggregating-scalar-method"
            if s != "agg":
                return "non-aggregating-or-complex"
        return None
    if kind == "select_rows":
        return "unknown-column" if names_of(a["expr"]) - D else None
    if kind in ("select_columns", "drop_columns"):
        return "unknown-column" if set(a["cols"]) - D else None
    if kind == "rename_columns":  # {new: old}
        return "unknown-column" if set(a["map"].values()) - D else None
    if kind == "map_columns":  # {old: new}
        return "unknown-column" if set(a["map"].keys()) - D else None
    if kind == "order_rows":
        if (set(a["cols"]) | set(a.get("reverse") or [])) - D:
            return "unknown-column"
        if set(a.get("reverse") or []) - set(a["cols"]):
            return "unknown-column"
        return None
    if kind == "natural_join":
        RD = set(right)
        on = a["on"]
        if set(on) - D or set(on) - RD:
            return "join-missing-keys"
        if a.get("check") and (D & RD) - set(on):
            return "join-non-key-common-columns"
        return None
    if kind == "concat_rows":
        return "concat-different-columns" if set(right) != D else None
    raise ValueError(kind)


def call_builder(ops, kind, a, right=None):
    from data_algebra.view_representations import TableDescription

    if kind == "extend":
        return ops.extend(dict(a["ops"]), partition_by=a.get("partition_by"), order_by=a.get("order_by"),
                          reverse=a.get("reverse"))
    if kind == "project":
        return ops.project(dict(a["ops"]), group_by=a.get("group_by"))
    if kind == "select_rows":
        return ops.select_rows(a["expr"])
    if kind == "select_columns":
        return ops.select_columns(list(a["cols"]))
    if kind == "drop_columns":
        return ops.drop_columns(list(a["cols"]))
    if kind == "rename_columns":
        return ops.rename_columns(dict(a["map"]))
    if kind == "map_columns":
        return ops.map_columns(dict(a["map"]))
    if kind == "order_rows":
        return ops.order_rows(list(a["cols"]), reverse=a.get("reverse"), limit=a.get("limit"))
    rt = TableDescription(table_name="pr__", column_names=list(right))
    if kind == "natural_join":
        kw = {}
        if a.get("check"):
            kw["check_all_common_keys_in_by" if a.get("legacy") else "check_all_common_keys_in_equi_spec"] = True
        if a.get("legacy"):
            return ops.natural_join(rt, by=list(a["on"]), jointype=a.get("jointype", "left"), **kw)
        return ops.natural_join(rt, on=list(a["on"]), jointype=a.get("jointype", "left"), **kw)
    if kind == "concat_rows":
        return ops.concat_rows(rt, id_column=None)
    raise ValueError(kind)


# ------------------------------------------------------------------ probe templates
def make_probes(rng, declared, kinds, removed):
    """list of (template name, kind, args, right columns or None, flavour)"""
    D = list(declared)
    out = []
    if removed and rng.random() < 0.65:
        U = rng.choice(sorted(removed))
        fl = "removed"
    else:
        U = "zz_unknown"
        fl = "never"
    c = rng.choice(D)
    others = [x for x in D if x != c]
    c2 = rng.choice(others) if others else None
    nv, nw = "nv__", "nw__"
    # --- unknown column, every argument position
    out.append(("extend-reads-unknown", "extend", {"ops": {nv: f"{U} + 1"}}, None, fl))
    out.append(("extend-partition-unknown", "extend", {"ops": {nv: "_size()"}, "partition_by": [U]}, None, fl))
    out.append(("extend-order-unknown", "extend", {"ops": {nv: "_row_number()"}, "partition_by": 1, "order_by": [U]}, None, fl))
    out.append(("extend-reverse-unknown", "extend", {"ops": {nv: "_row_number()"}, "partition_by": 1, "order_by": [c],
                                                      "reverse": [U]}, None, fl))
    out.append(("project-reads-unknown", "project", {"ops": {nv: f"{U}.max()"}, "group_by": [c]}, None, fl))
    out.append(("project-group-unknown", "project", {"ops": {nv: f"{c}.max()"}, "group_by": [U]}, None, fl))
    out.append(("select_rows-unknown", "select_rows", {"expr": f"{U} > 1"}, None, fl))
    out.append(("select_columns-unknown", "select_columns", {"cols": [U, c]}, None, fl))
    out.append(("select_columns-only-unknown", "select_columns", {"cols": [U]}, None, fl))
    out.append(("drop_columns-unknown", "drop_columns", {"cols": [U]}, None, fl))
    out.append(("rename_columns-unknown", "rename_columns", {"map": {nv: U}}, None, fl))
    out.append(("map_columns-unknown", "map_columns", {"map": {U: nv}}, None, fl))
    out.append(("order_rows-unknown", "order_rows", {"cols": [U]}, None, fl))
    out.append(("order_rows-reverse-unknown", "order_rows", {"cols": [c], "reverse": [U]}, None, fl))
    out.append(("join-left-missing-key", "natural_join", {"on": [U], "jointype": rng.choice(["inner", "left", "full"])},
                [U, "rv__"], fl))
    out.append(("join-right-missing-key", "natural_join", {"on": [c], "jointype": rng.choice(["inner", "left", "right"])},
                ["rk__", "rv__"], "-"))
    # --- partition / order columns may not be assigned
    out.append(("extend-assigns-partition", "extend", {"ops": {c: "_size()"}, "partition_by": [c]}, None, "-"))
    if c2:
        out.append(("extend-assigns-order", "extend", {"ops": {c2: "_row_number()"}, "partition_by": [c], "order_by": [c2]}, None, "-"))
        out.append(("extend-assigns-order-nopart", "extend", {"ops": {c2: "_row_number()"}, "partition_by": 1, "order_by": [c2]}, None, "-"))
    # --- produced and used in the same extend
    out.append(("extend-uses-new-same-step", "extend", {"ops": {nv: f"{c} + 1", nw: f"{nv} + 1"}}, None, "-"))
    out.append(("extend-uses-overwritten-same-step", "extend", {"ops": {c: f"{c} + 1", nw: f"{c} + 2"}}, None, "-"))
    out.append(("extend-uses-overwritten-same-step-reader-first", "extend", {"ops": {nw: f"{c} + 2", c: f"{c} + 1"}}, None, "-"))
    out.append(("extend-uses-new-same-step-reader-first", "extend", {"ops": {nw: f"{nv} + 1", nv: f"{c} + 1"}}, None, "-"))
    if c2:
        out.append(("extend-three-way-reader-first", "extend", {"ops": {nw: f"{c} * 2", nv: f"{c2} + 1", c: f"{c} + 1"}}, None, "-"))
    # --- non-aggregating / too complex
    out.append(("project-arith", "project", {"ops": {nv: f"{c} + 1"}, "group_by": [c2] if c2 else []}, None, "-"))
    out.append(("project-plain-column", "project", {"ops": {nv: f"{c}"}, "group_by": [c2] if c2 else []}, None, "-"))
    out.append(("project-agg-of-expression", "project", {"ops": {nv: f"({c} + 1).sum()"}, "group_by": [c2] if c2 else []}, None, "-"))
    out.append(("project-expression-of-agg", "project", {"ops": {nv: f"{c}.sum() + 1"}, "group_by": [c2] if c2 else []}, None, "-"))
    out.append(("project-scalar-method", "project", {"ops": {nv: f"{c}.abs()"}, "group_by": [c2] if c2 else []}, None, "-"))
    if c2:
        out.append(("window-plain-column", "extend", {"ops": {nv: f"{c}"}, "partition_by": [c2]}, None, "-"))
        out.append(("window-agg-of-expression", "extend", {"ops": {nv: f"({c} + 1).sum()"}, "partition_by": [c2]}, None, "-"))
        out.append(("window-expression-of-agg", "extend", {"ops": {nv: f"{c}.sum() + 1"}, "partition_by": [c2]}, None, "-"))
        out.append(("window-scalar-method", "extend", {"ops": {nv: f"{c}.abs()"}, "partition_by": [c2]}, None, "-"))
        out.append(("window-arith", "extend", {"ops": {nv: f"{c} + 1"}, "partition_by": [c2]}, None, "-"))
        # the same five shapes for the other two ways a window is declared: order_by alone, and partition_by=1
        for wname, wargs in (("orderonly", {"order_by": [c2]}), ("orderonly-rev", {"order_by": [c2], "reverse": [c2]}),
                             ("part1", {"partition_by": 1})):
            out.append((f"window-plain-column@{wname}", "extend", dict({"ops": {nv: f"{c}"}}, **wargs), None, "-"))
            out.append((f"window-agg-of-expression@{wname}", "extend", dict({"ops": {nv: f"({c} + 1).sum()"}}, **wargs), None, "-"))
            out.append((f"window-expression-of-agg@{wname}", "extend", dict({"ops": {nv: f"{c}.sum() + 1"}}, **wargs), None, "-"))
            out.append((f"window-scalar-method@{wname}", "extend", dict({"ops": {nv: f"{c}.abs()"}}, **wargs), None, "-"))
            out.append((f"window-arith@{wname}", "extend", dict({"ops": {nv: f"{c} + 1"}}, **wargs), None, "-"))
    # --- join checks / concat
    if c2:
        out.append(("join-check-non-key-common", "natural_join", {"on": [c], "jointype": "left", "check": True},
                    [c, c2, "rv__"], "-"))
        out.append(("join-check-all-common-are-keys", "natural_join", {"on": [c, c2], "jointype": "left", "check": True},
                    [c, c2, "rv__"], "-"))
        out.append(("join-no-check-non-key-common", "natural_join", {"on": [c], "jointype": "inner"}, [c, c2, "rv__"], "-"))
    out.append(("join-check-single-common-key", "natural_join", {"on": [c], "jointype": "inner", "check": True}, [c, "rv__"], "-"))
    if c2:
        out.append(("join-legacy-check-non-key-common", "natural_join", {"on": [c], "jointype": "left", "check": True, "legacy": True},
                    [c, c2, "rv__"], "-"))
        out.append(("join-legacy-by-missing-key", "natural_join", {"on": [c], "jointype": "left", "legacy": True}, ["rk__", "rv__"], "-"))
    out.append(("join-legacy-by-ok", "natural_join", {"on": [c], "jointype": "inner", "legacy": True}, [c, "rv__"], "-"))
    out.append(("concat-extra-column", "concat_rows", {}, D + ["extra__"], "-"))
    if len(D) > 1:
        out.append(("concat-missing-column", "concat_rows", {}, D[1:], "-"))
        out.append(("concat-same-columns-permuted", "concat_rows", {}, D[1:] + D[:1], "-"))
    out.append(("concat-same-columns", "concat_rows", {}, list(D), "-"))
    # --- rule-conforming counterparts
    out.append(("ok-extend-reads-existing", "extend", {"ops": {nv: f"{c} + 1"}}, None, "-"))
    out.append(("ok-extend-self-update", "extend", {"ops": {c: f"{c} + 1"}}, None, "-"))
    out.append(("ok-extend-two-independent", "extend", {"ops": {nv: f"{c} + 1", nw: f"{c} + 2"}}, None, "-"))
    out.append(("ok-project-agg", "project", {"ops": {nv: f"{c}.max()"}, "group_by": [c2] if c2 else []}, None, "-"))
    out.append(("ok-project-size", "project", {"ops": {nv: "_size()"}, "group_by": [c]}, None, "-"))
    out.append(("ok-select_rows", "select_rows", {"expr": f"{c} == {c}"}, None, "-"))
    out.append(("ok-select_columns", "select_columns", {"cols": [c]}, None, "-"))
    out.append(("ok-order_rows", "order_rows", {"cols": [c], "reverse": [c]}, None, "-"))
    out.append(("ok-rename", "rename_columns", {"map": {nv: c}}, None, "-"))
    out.append(("ok-map", "map_columns", {"map": {c: nv}}, None, "-"))
    if c2:
        out.append(("ok-drop", "drop_columns", {"cols": [c]}, None, "-"))
        out.append(("ok-window-agg", "extend", {"ops": {nv: f"{c}.max()"}, "partition_by": [c2]}, None, "-"))
        out.append(("ok-window-agg-overwrites-nonkey", "extend", {"ops": {c: f"{c}.max()"}, "partition_by": [c2]}, None, "-"))
        out.append(("ok-ordered-window", "extend", {"ops": {nv: "_row_number()"}, "partition_by": [c], "order_by": [c2],
                                                    "reverse": [c2]}, None, "-"))
        out.append(("ok-ordered-window-cumsum", "extend", {"ops": {nv: f"{c}.cumsum()"}, "partition_by": 1, "order_by": [c2]},
                    None, "-"))
    return out


def columns_along(recipe):
    seen = set()
    for n in B.walk(recipe):
        if n["op"] == "table":
            seen |= set(n["cols"])
        elif n["op"] in ("extend", "project"):
            seen |= {c for c, _ in n["ops"]}
        elif n["op"] == "rename_columns":
            seen |= {new for new, old in n["map"]}
        elif n["op"] == "map_columns":
            seen |= {new for old, new in n["map"] if new is not None}
    return seen


def probe_once(ops, declared, tpl):
    """returns (judge verdict, accepted, exception text)"""
    name, kind, a, right, fl = tpl
    want = judge(kind, a, declared, right)
    try:
        call_builder(ops, kind, a, right)
        return want, True, None
    except Exception as ex:
        return want, False, exc_str(ex)[:200]


def run_batch(seed, batch, tier):
    monitors.install()
    b = Batch(PID, seed, batch, tier)
    gl = {}
    from data_algebra.view_representations import TableDescription

    for i in range(N[tier] // NB[tier]):
        monitors.OBS.reset_case()
        try:
            with time_limit(30):
                prof = profile(tier, b.rng)
                case, st = diff.new_case(b.rng, prof, tier, gl)
                try:
                    ops = B.build(case["recipe"])
                except Exception as ex:
                    b.count("prefix_build_raised", type(ex).__name__)
                    continue
                declared = [c for c in st.frame.columns]
                if set(ops.column_names) != set(declared) or not all(isinstance(c, str) and c.isidentifier() for c in declared):
                    b.count("prefix_columns_unusable")
                    continue
                b.evaluation()
                ending = case["recipe"]["op"]
                if ending == "order_rows" and case["recipe"].get("limit") is None:
                    ending = "order_rows-nolimit"
                if ending == "extend" and (case["recipe"].get("partition_by") or case["recipe"].get("order_by")):
                    ending = "extend-windowed"
                removed = {c for c in columns_along(case["recipe"]) - set(declared) if c.isidentifier()}
                tpls = make_probes(b.rng, declared, st.kinds, removed)
                b.rng.shuffle(tpls)
                fresh = TableDescription(table_name="fresh__", column_names=list(declared))
                for tpl in tpls[:PROBES_PER_PREFIX]:
                    name, kind, a, right, fl = tpl
                    want, accepted, ex = probe_once(ops, declared, tpl)
                    b.count("probes", name, ("rejected" if not accepted else "accepted"))
                    b.count("rule_by_ending", want or "conforming", ending)
                    b.sig(f"{ending}|{name}|{fl}")
                    pc = diff.case_json(case, {"probe": {"template": name, "kind": kind, "args": a, "right": right},
                                               "declared": declared})
                    if want is None and not accepted:
                        _, fresh_ok, fex = probe_once(fresh, declared, tpl)
                        b.violation("conforming-step-rejected",
                                    f"template {name}: step {kind} {a} (right columns {right}) follows every rule over declared "
                                    f"columns {declared} but the chained builder raised {ex}; the same step on a fresh table "
                                    f"description of those columns is {'accepted' if fresh_ok else 'rejected too: ' + str(fex)}\n"
                                    f"prefix: {diff.describe(case)[-600:]}", case=pc)
                    elif want is not None and accepted:
                        _, fresh_ok, fex = probe_once(fresh, declared, tpl)
                        fk = FINDING_SCALAR_IN_AGG if want == "non-aggregating-scalar-method" else None
                        b.violation("ill-formed-step-accepted",
                                    f"template {name}: step {kind} {a} (right columns {right}) breaks rule '{want}' over declared "
                                    f"columns {declared} but the chained builder accepted it (fresh table description: "
                                    f"{'accepted' if fresh_ok else 'rejected'})\nprefix: {diff.describe(case)[-600:]}",
                                    case=pc, finding_key=fk)
                b.sample({"prefix": diff.describe(case)[-400:], "declared": declared, "ending": ending}, limit=1)
        except CaseTimeout:
            b.count("case_timeout")
        except Exception as ex:
            b.count("harness_error", type(ex).__name__ + ":" + str(ex)[:80])
    b.counters["generator"] = {k: v for k, v in gl.items() if k.startswith("step:")}
    return b.result()


def replay(v):
    c = v.get("case") or {}
    if "probe" not in c:
        return None
    ops = B.build(c["recipe"])
    p = c["probe"]
    tpl = (p["template"], p["kind"], p["args"], p.get("right"), "-")
    want, accepted, ex = probe_once(ops, c["declared"], tpl)
    if want is None and not accepted:
        return f"conforming step rejected: {ex}"
    if want is not None and accepted:
        return f"step breaking rule {want} accepted"
    return None


def w_scalar_in_agg():
    from data_algebra.view_representations import TableDescription

    t = TableDescription(table_name="d", column_names=["x", "g"])
    acc = []
    for what, f in (("project({'s': 'x.abs()'}, group_by=['g'])", lambda: t.project({"s": "x.abs()"}, group_by=["g"])),
                    ("extend({'s': 'x.abs()'}, partition_by=['g'])", lambda: t.extend({"s": "x.abs()"}, partition_by=["g"])),
                    ("extend({'s': 'x + 1'}, partition_by=['g'])", lambda: t.extend({"s": "x + 1"}, partition_by=["g"]))):
        try:
            f()
            acc.append(what)
        except Exception:
            pass
    return ("accepted at build time (fails only at evaluation): " + "; ".join(acc)) if acc else None


def w_select_after_drop():
    from data_algebra.view_representations import TableDescription

    t = TableDescription(table_name="d", column_names=["x", "y"])
    try:
        t.drop_columns(["y"]).select_columns(["y"])
    except Exception:
        return None
    return "drop_columns(['y']).select_columns(['y']) is accepted"


def w_join_check_after_order():
    from data_algebra.view_representations import TableDescription

    t = TableDescription(table_name="d", column_names=["k", "v"])
    u = TableDescription(table_name="e", column_names=["k", "v"])
    try:
        t.order_rows(["k"]).natural_join(u, on=["k"], jointype="left", check_all_common_keys_in_equi_spec=True)
    except Exception:
        return None
    return "order_rows(['k']).natural_join(..., check_all_common_keys_in_equi_spec=True) with a non-key common column is accepted"


WITNESSES = {
    FINDING_SCALAR_IN_AGG: w_scalar_in_agg,
    "select-through-drop-accepts-removed-column": w_select_after_drop,
    "join-key-check-lost-after-interior-order": w_join_check_after_order,
}


def inconclusive(counters, sigs, tier):
    rb = counters.get("rule_by_ending", {})
    need_rules = ["unknown-column", "changes-partition-or-order-column", "uses-column-produced-in-same-extend",
                  "non-aggregating-or-complex", "join-missing-keys", "join-non-key-common-columns",
                  "concat-different-columns", "conforming"]
    need_end = ["order_rows-nolimit", "select_columns", "drop_columns", "extend", "project", "natural_join"]
    for r in need_rules:
        for e in need_end:
            if rb.get(r, {}).get(e, 0) == 0:
                return f"rule {r} never probed after a prefix ending in {e}"
    return None
