"""C14 — generated SQL carries every literal and identifier verbatim.

Hostile strings (quotes, backslashes, newlines, comment openers, placeholders, unicode, keywords, long strings) are
placed in every position user text reaches SQL: string constants in extend / select_rows / is_in / mapv (built from
expression text and from Value objects), column names, table names, concat_rows labels and id column, control-table
keys / content names / record keys of convert_records.  Oracles:
  1. read-back on a real engine: the SQLite-dialect text runs on SQLite 3.40 and the PostgreSQL-dialect text on the
     SQLite surrogate; the table read back must equal the Pandas result, which carries the raw Python strings;
     (thorough tier: the Spark dialect on a real local Spark 4.2 session);
  2. dialect lexers (PostgreSQL, MySQL, BigQuery, Spark, SQLite): every text must tokenise to the end and the hostile
     value must appear, exactly, among the decoded string-literal (or identifier) tokens;
  3. structure invariance: the token skeleton (literals and identifiers abstracted, comments dropped) must be the
     skeleton of the same pipeline with the hostile string replaced by 'abc'.
Names containing a dialect's identifier quote character are not generated for that dialect (excluded by the property).
"""
import json

from vf import backends, monitors, sqllex
from vf.compare import frames_match
from vf.gen.hostile import HOSTILE_STRINGS
from vf.util import Batch, exc_str, time_limit, CaseTimeout

PID = "C14"
LEVEL = "exploration"
RULE = (
    "hostile string pool (~70 strings: ' \" ` single/double/trailing backslash, \\n \\r \\t, --, /* */, #, ;, %, %s, :name, ?, "
    "$tag$, {}, empty, blanks, accented, CJK, emoji, combining, RTL, SQL keywords, 300 chars) x 12 positions (extend "
    "constant from text / from Value, select_rows comparison, is_in list, mapv key / value / default, column name, "
    "table name, concat a_name / b_name / id_column, record-map control key / content name / record key) x 5 dialects; "
    "non-trivial = the string contains a character that is special in the dialect; distinct = distinct (string class, "
    "position, dialect, oracle)"
)
ASSUMPTIONS = [
    "MySQL and BigQuery lexers are written from the documentation and not validated against an engine; the Spark lexer "
    "was calibrated against the real Spark 4.2 of this sandbox",
    "NUL is not generated (client APIs reject it)",
]

N = {"quick": 70, "thorough": 400}
NB = {"quick": 16, "thorough": 32}

POOL = HOSTILE_STRINGS + [
    "'", '"', "`", "\\", "\\\\", "a\\", "a'b\"c`d", "x -- y", "x /* y", "*/ x", "# x", ";drop table t;", "100%", "%(name)s", ":name", "?",
    "$1", "$$", "{}", "{x}", " ", "   ", "\t", "a\rb", "é", "ñandú", "中文", "👍🏽", "e\u0301", "\u05d0\u05d1", "\u202eabc", "SELECT", "NULL", "null",
    "select * from t", "x" * 300, "''", '""', "\\'", "\\n", "a\nb\n\nc", "tab\tq", "end\\", "'; --", "\\\\'", "back\\slash\\", "%%", "a''b",
]
DIALECTS = ["sqlite", "postgresql", "mysql", "bigquery", "spark"]
IDQUOTE = {"sqlite": '"', "postgresql": '"', "mysql": "`", "bigquery": "`", "spark": "`"}
POSITIONS = ["extend-text", "extend-value", "select_rows", "is_in", "mapv-key", "mapv-value", "mapv-default", "column-name", "column-name-narrowed", "table-name",
             "concat-a_name", "concat-b_name", "concat-id_column", "record-control-key", "record-content-name", "record-key-column"]
LITERAL_POS = {"extend-text", "extend-value", "select_rows", "is_in", "mapv-key", "mapv-value", "mapv-default", "concat-a_name",
               "concat-b_name", "record-control-key"}

F_BACKSLASH = "backslash-in-string-literal-not-escaped"       # mysql, bigquery, spark
F_BQ_QUOTE = "bigquery-string-quote-doubled-instead-of-escaped"
F_BQ_NEWLINE = "bigquery-raw-newline-in-string-literal"

_models = {}


def model(d):
    if not _models:
        import data_algebra.SQLite, data_algebra.PostgreSQL, data_algebra.MySQL, data_algebra.BigQuery, data_algebra.SparkSQL

        _models.update(sqlite=data_algebra.SQLite.SQLiteModel(), postgresql=data_algebra.PostgreSQL.PostgreSQLModel(),
                       mysql=data_algebra.MySQL.MySQLModel(), bigquery=data_algebra.BigQuery.BigQueryModel(),
                       spark=data_algebra.SparkSQL.SparkSQLModel())
    return _models[d]


def plan(tier):
    return {"batches": NB[tier], "batch_timeout_s": 3000}


def build(position, S):
    """returns (ops, frames) with the string S in the given position"""
    import pandas
    import data_algebra.expr_rep as er
    import data_algebra.cdata as cdata
    from data_algebra.view_representations import TableDescription

    d = pandas.DataFrame({"g": ["a", S, "b", "zz"], "x": [1.0, 2.0, 3.0, 4.0]})
    t = TableDescription(table_name="d", column_names=["g", "x"])
    frames = {"d": d}
    if position == "extend-text":
        return t.extend({"s": repr(S)}), frames
    if position == "extend-value":
        return t.extend({"s": er.Value(S)}), frames
    if position == "select_rows":
        return t.select_rows(er.ColumnReference("g") == er.Value(S)), frames
    if position == "is_in":
        return t.extend({"m": er.ColumnReference("g").is_in([er.Value(S), er.Value("a")])}), frames
    if position == "mapv-key":
        return t.extend({"m": er.ColumnReference("g").mapv(er.DictTerm({S: "hit", "a": "A"}), er.Value("dflt"))}), frames
    if position == "mapv-value":
        return t.extend({"m": er.ColumnReference("g").mapv(er.DictTerm({"a": S, "b": "B"}), er.Value("dflt"))}), frames
    if position == "mapv-default":
        return t.extend({"m": er.ColumnReference("g").mapv(er.DictTerm({"a": "A"}), er.Value(S))}), frames
    if position == "column-name":
        d2 = d.rename(columns={"g": S})
        t2 = TableDescription(table_name="d", column_names=[S, "x"])
        return t2.extend({"y": "x + 1"}).order_rows([S, "x"]).select_columns([S, "y"]), {"d": d2}
    if position == "column-name-narrowed":
        # the table has a column the pipeline never uses: the generator reads the table through a narrowing SELECT
        d2 = d.rename(columns={"g": S}).assign(unused_col=0)
        t2 = TableDescription(table_name="d", column_names=[S, "x", "unused_col"])
        return t2.extend({"y": "x + 1"}).order_rows([S, "x"]).select_columns([S, "y"]), {"d": d2}
    if position == "table-name":
        t2 = TableDescription(table_name=S, column_names=["g", "x"])
        return t2.extend({"y": "x + 1"}), {S: d}
    if position.startswith("concat-"):
        kw = {"a_name": "a", "b_name": "b", "id_column": "src"}
        kw[position.split("-", 1)[1]] = S
        return t.concat_rows(t.select_rows("x > 2"), **kw), frames
    if position in ("record-control-key", "record-content-name", "record-key-column"):
        rk = S if position == "record-key-column" else "id"
        k1 = S if position == "record-control-key" else "k1"
        c1 = S if position == "record-content-name" else "c1"
        ct = pandas.DataFrame({"measure": [k1, "k2"], "value": [c1, "c2"]})
        spec = cdata.RecordSpecification(ct, record_keys=[rk], control_table_keys=["measure"])
        rows = pandas.DataFrame({rk: [1, 2], c1: [1.5, 2.5], "c2": [10.0, 20.0]})
        tr = TableDescription(table_name="r", column_names=[rk, c1, "c2"])
        return tr.convert_records(spec.map_from_rows()), {"r": rows}
    raise ValueError(position)


def special_in(S, dialect):
    specials = {"sqlite": "'\"", "postgresql": "'\"$", "mysql": "'\"\\`#", "bigquery": "'\"\\`#\n", "spark": "'\"\\`"}[dialect]
    return any(ch in S for ch in specials) or any(x in S for x in ("--", "/*", "*/", ";", "\n", "%"))


def classify(dialect, S, position, kind):
    if dialect in ("mysql", "bigquery", "spark") and "\\" in S and position in LITERAL_POS:
        return F_BACKSLASH
    if dialect == "bigquery" and "\\" in S and position not in LITERAL_POS:
        return F_BACKSLASH  # BigQuery also processes backslash escapes inside `quoted identifiers`
    if dialect in ("mysql", "spark") and "\\" in S and position == "record-content-name":
        return F_BACKSLASH  # a content name is also written as a string literal (CASE WHEN key = 'name')
    if dialect == "bigquery" and '"' in S and (position in LITERAL_POS or position == "record-content-name"):
        return F_BQ_QUOTE
    if dialect == "bigquery" and ("\n" in S or "\r" in S) and position in LITERAL_POS:
        return F_BQ_NEWLINE
    return None


def judge(b, position, S, engines):
    """returns list of (dialect, oracle) that held"""
    held = []
    case = {"position": position, "string": S}
    is_ident = position not in LITERAL_POS
    try:
        ops, frames = build(position, S)
        ops_ref, frames_ref = build(position, "abc")
    except Exception as ex:
        b.count("build_rejected", position + ":" + type(ex).__name__)
        return held
    try:
        ref = ops.eval({k: v.copy() for k, v in frames.items()})
    except Exception as ex:
        b.count("pandas_raised", position + ":" + type(ex).__name__)
        ref = None
    for dname in DIALECTS:
        if is_ident and IDQUOTE[dname] in S:
            b.count("excluded_identifier_quote_in_name", dname)
            continue
        if is_ident and S == "":
            continue
        cj = dict(case, dialect=dname)
        try:
            sql = model(dname).to_sql(ops)
            sql_ref = model(dname).to_sql(ops_ref)
        except Exception as ex:
            b.violation("to_sql-raised", f"{dname}: {position} = {S!r}: to_sql raises {exc_str(ex)[:300]}", case=cj,
                        finding_key=classify(dname, S, position, "to_sql"))
            continue
        b.count("texts", dname)
        # 2. lexer: tokenises, value present verbatim
        try:
            toks = sqllex.tokens(sql, dname)
        except sqllex.LexError as ex:
            b.violation("sql-does-not-tokenise", f"{dname}: {position} = {S!r}: {ex}\nsql: {sql[-500:]}", case=cj,
                        finding_key=classify(dname, S, position, "lex"))
            continue
        want_kind = "ident" if is_ident else "str"
        vals = [v for k, raw, v in toks if k == want_kind]
        if S not in vals:
            near = [v for v in vals if v[:3] == S[:3]][:3]
            b.violation("value-not-carried-verbatim", f"{dname}: {position}: {S!r} does not appear among the decoded {want_kind} tokens "
                        f"(closest: {near!r})\nsql: {sql[-500:]}", case=cj, finding_key=classify(dname, S, position, "value"))
            continue
        held.append((dname, "lexer"))
        # 3. structure invariance
        try:
            sk, sk_ref = sqllex.skeleton(toks), sqllex.skeleton(sqllex.tokens(sql_ref, dname))
        except sqllex.LexError:
            sk = sk_ref = None
        if sk != sk_ref:
            b.violation("statement-structure-changed", f"{dname}: {position} = {S!r}: the token skeleton differs from the one with 'abc' "
                        f"({len(sk)} vs {len(sk_ref)} tokens)\nsql: {sql[-500:]}", case=cj, finding_key=classify(dname, S, position, "skeleton"))
            continue
        held.append((dname, "skeleton"))
        # 1. read-back on a real engine
        if dname == "postgresql" and position.startswith("record-"):
            b.count("excluded_surrogate_cannot_run", "convert_records VALUES alias syntax")
            continue
        if dname in engines and is_ident and S.lower() in ("true", "false"):
            # SQLite reports a result column called "True" with its quotes (an engine quirk about the TRUE keyword)
            b.count("excluded_engine_quirk", "identifier named true/false on SQLite")
            continue
        if dname in engines and ref is not None:
            eng = engines[dname]
            try:
                eng.load(frames)
                got = eng.run_sql(sql)
            except Exception as ex:
                b.violation("engine-rejects-sql", f"{dname}: {position} = {S!r}: {exc_str(ex)[-300:]}\nsql: {sql[-400:]}", case=cj,
                            finding_key=classify(dname, S, position, "engine"))
                continue
            m = frames_match(ref, got)
            b.count("read_backs", dname)
            if m:
                b.violation("read-back-differs", f"{dname}: {position} = {S!r}: {m}", case=cj,
                            finding_key=classify(dname, S, position, "readback"))
                continue
            held.append((dname, "read-back"))
    return held


def string_class(S):
    cls = []
    for name, test in (("quote", lambda s: "'" in s or '"' in s or "`" in s), ("backslash", lambda s: "\\" in s),
                       ("newline", lambda s: "\n" in s or "\r" in s or "\t" in s), ("comment", lambda s: "--" in s or "/*" in s or "#" in s),
                       ("placeholder", lambda s: "%" in s or "?" in s or ":" in s or "$" in s or "{" in s),
                       ("non-ascii", lambda s: any(ord(ch) > 127 for ch in s)), ("blank", lambda s: s.strip() != s or s == ""),
                       ("long", lambda s: len(s) > 100)):
        if test(S):
            cls.append(name)
    return "+".join(cls) or "plain"


def run_batch(seed, batch, tier):
    monitors.install()
    b = Batch(PID, seed, batch, tier)
    engines = {"sqlite": backends.Sqlite(), "postgresql": backends.PgSurrogate()}
    pool = list(POOL)
    b.rng.shuffle(pool)
    nb = NB[tier]
    work = [(p, S) for i, S in enumerate(pool) for p in POSITIONS]
    b.rng.shuffle(work)
    mine = [w for i, w in enumerate(work) if i % nb == batch % nb][: N[tier]]
    for position, S in mine:
        try:
            with time_limit(60):
                b.evaluation()
                held = judge(b, position, S, engines)
                b.count("positions", position)
                for dname, oracle in held:
                    if special_in(S, dname):
                        b.sig(f"{string_class(S)}|{position}|{dname}|{oracle}")
                b.sample({"position": position, "string": S}, limit=2)
        except CaseTimeout:
            b.count("case_timeout")
        except Exception as ex:
            b.count("harness_error", position + ":" + type(ex).__name__ + ":" + str(ex)[:100])
    for e in engines.values():
        e.close()
    return b.result()


def replay(v):
    c = v.get("case") or {}
    if "position" not in c:
        return None
    b = Batch(PID, 0, 0, "quick")
    engines = {"sqlite": backends.Sqlite(), "postgresql": backends.PgSurrogate()}
    try:
        judge(b, c["position"], c["string"], engines)
    finally:
        for e in engines.values():
            e.close()
    for x in b.violations:
        if (x.get("case") or {}).get("dialect") == c.get("dialect"):
            return x["kind"] + ": " + x["detail"]
    return None


def inconclusive(counters, sigs, tier):
    t = counters.get("texts", {})
    for d in DIALECTS:
        if t.get(d, 0) < 100:
            return f"dialect {d}: only {t.get(d, 0)} texts generated"
    p = counters.get("positions", {})
    for pos in POSITIONS:
        if p.get(pos, 0) < 10:
            return f"position {pos} exercised {p.get(pos, 0)} times"
    rb = counters.get("read_backs", {})
    if rb.get("sqlite", 0) < 100:
        return "fewer than 100 read-backs on SQLite"
    return None
