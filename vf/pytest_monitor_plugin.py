"""pytest plugin: runs the repository's own test suite with the /verif contract layer armed.

Loaded with `-p vf.pytest_monitor_plugin` (PYTHONPATH must contain /verif and /verif/.deps).  Every evaluation any test
performs goes through the C08 (declared columns) and C19 (inputs unchanged) contracts on eval/transform/ex and through
the C09 step hooks on project / windowed extend; what they observed is written to $VERIF_SUITE_OUT at session end.
"""
import json
import os

_current = [None]
_seen = [0]
_outcomes = {}


def pytest_runtest_logreport(report):
    if report.when == "call" or (report.when == "setup" and report.outcome != "passed"):
        _outcomes[report.outcome] = _outcomes.get(report.outcome, 0) + 1


def pytest_configure(config):
    from vf import monitors

    monitors.install()
    monitors.install_step_hooks()


def pytest_runtest_setup(item):
    _current[0] = item.nodeid


def pytest_runtest_teardown(item, nextitem):
    from vf import monitors

    fs = monitors.OBS.failures
    for f in fs[_seen[0]:]:
        f.setdefault("test", item.nodeid)
    _seen[0] = len(fs)


def pytest_sessionfinish(session, exitstatus):
    from vf import monitors

    out = os.environ.get("VERIF_SUITE_OUT")
    if not out:
        return
    import data_algebra

    with open(out, "w") as f:
        json.dump({"package_file": data_algebra.__file__, "outcomes": _outcomes, "failures": monitors.OBS.failures[:500], "calls": monitors.OBS.calls, "n_failures": len(monitors.OBS.failures)}, f,
                  default=str)
