"""Worker process: one batch of cases of one check, on the real code imported from /repo."""
import importlib
import json
import os
import sys
import traceback
import warnings


def main(argv):
    pid, tier, seed, batch, out = argv[0], argv[1], int(argv[2]), int(argv[3]), argv[4]
    warnings.simplefilter("ignore")
    import data_algebra

    repo = os.environ.get("VERIF_REPO", "/repo")
    assert os.path.abspath(data_algebra.__file__).startswith(
        os.path.abspath(repo) + os.sep
    ), f"data_algebra imported from {data_algebra.__file__}, expected under {repo}"
    mod = importlib.import_module("vf.checks." + pid.lower())
    res = mod.run_batch(seed=seed, batch=batch, tier=tier)
    res.setdefault("counters", {})
    res.setdefault("violations", [])
    res.setdefault("sigs", [])
    res.setdefault("samples", [])
    wf = {}
    if batch == 0:
        for key, fn in getattr(mod, "WITNESSES", {}).items():
            try:
                msg = fn()
            except Exception as ex:
                msg = "witness raised: " + "".join(
                    traceback.format_exception_only(type(ex), ex)
                ).strip()
            if msg:
                wf[key] = str(msg)[:1000]
        res["counters"]["witnesses_replayed"] = len(getattr(mod, "WITNESSES", {}))
    res["witness_fail"] = wf
    res["sigs"] = sorted(set(res["sigs"]))
    from vf.runner import jdefault

    with open(out + ".tmp", "w") as f:
        json.dump(res, f, default=jdefault)
    os.replace(out + ".tmp", out)
    return 0


if __name__ == "__main__":
    sys.exit(main(sys.argv[1:]))
