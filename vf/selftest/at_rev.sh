#!/bin/sh
# usage: at_rev.sh <git-rev-of-/repo> <ID> [tier] -- run a check against the package as of that revision (scratch copy)
REV="$1"; ID="$2"; TIER="${3:-quick}"
S=$(mktemp -d /tmp/vfrev.XXXXXX)
git -C /repo archive "$REV" data_algebra | tar -x -C "$S" || { rm -rf "$S"; exit 3; }
VERIF_REPO="$S" "$(dirname "$0")/../../check" "$ID" "$TIER" > "$S/out.txt" 2>&1
RC=$?
grep -E "VIOLATION|KNOWN-FINDING|INCONCLUSIVE|^\[|witness" "$S/out.txt" | cut -c1-260 | head -${LINES_MAX:-14}
rm -rf "$S"
exit $RC
