#!/bin/sh
# usage: mutate.sh <patch> <ID> [tier]  -- applies a patch (-p1, paths a/data_algebra/...) to a scratch copy
# of /repo's package (outside /repo and /verif), runs the check against it, removes the copy.
P="$(realpath "$1")"; ID="$2"; TIER="${3:-quick}"
S=$(mktemp -d /tmp/vfmut.XXXXXX)
cp -r /repo/data_algebra "$S/data_algebra" && rm -rf "$S/data_algebra/__pycache__"
( cd "$S" && patch -s -p1 < "$P" ) || { echo "patch failed"; rm -rf "$S"; exit 3; }
VERIF_REPO="$S" "$(dirname "$0")/../../check" "$ID" "$TIER" > "$S/out.txt" 2>&1
RC=$?
grep -E "VIOLATION|KNOWN-FINDING|INCONCLUSIVE|^\[" "$S/out.txt" | head -8
rm -rf "$S"
exit $RC
